package main

// bytes -> protobuf message -> AST (tagged JSON).  Written from the generated field lists of
// the .pb.go files, independently of the decoders in core/xdsresource: it reports what a
// resource really contains, which is what the model is given as input.

import (
	"math"
	"regexp"
	"sort"
	"strconv"

	udpatypev1 "github.com/cncf/xds/go/udpa/type/v1"
	clusterv3 "github.com/envoyproxy/go-control-plane/envoy/config/cluster/v3"
	corev3 "github.com/envoyproxy/go-control-plane/envoy/config/core/v3"
	endpointv3 "github.com/envoyproxy/go-control-plane/envoy/config/endpoint/v3"
	listenerv3 "github.com/envoyproxy/go-control-plane/envoy/config/listener/v3"
	routev3 "github.com/envoyproxy/go-control-plane/envoy/config/route/v3"
	lrlv3 "github.com/envoyproxy/go-control-plane/envoy/extensions/filters/http/local_ratelimit/v3"
	hcmv3 "github.com/envoyproxy/go-control-plane/envoy/extensions/filters/network/http_connection_manager/v3"
	thriftv3 "github.com/envoyproxy/go-control-plane/envoy/extensions/filters/network/thrift_proxy/v3"
	matcherv3 "github.com/envoyproxy/go-control-plane/envoy/type/matcher/v3"
	"google.golang.org/protobuf/proto"
	"google.golang.org/protobuf/types/known/anypb"
	"google.golang.org/protobuf/types/known/durationpb"
	"google.golang.org/protobuf/types/known/structpb"
	"google.golang.org/protobuf/types/known/wrapperspb"

	dnsProto "github.com/kitex-contrib/xds/core/api/kitex_gen/istio.io/istio/pkg/dns/proto/istio_networking_nds_v1"
	"github.com/kitex-contrib/xds/core/xdsresource"
)

// summCtx collects oracle inputs and flags content the model does not cover.
type summCtx struct {
	regexes    map[string]struct{}
	rates      map[string]struct{}
	unmodelled []string
}

func newSummCtx() *summCtx {
	return &summCtx{regexes: map[string]struct{}{}, rates: map[string]struct{}{}}
}

func sU32(w *wrapperspb.UInt32Value) interface{} {
	if w == nil {
		return nil
	}
	return Some(uint64(w.Value))
}

func sDur(d *durationpb.Duration) interface{} {
	if d == nil {
		return nil
	}
	return Some(Zv(int64(d.AsDuration())))
}

func (c *summCtx) sHeader(h *routev3.HeaderMatcher) interface{} {
	var spec interface{}
	switch s := h.HeaderMatchSpecifier.(type) {
	case nil:
		spec = C("HSNone")
	case *routev3.HeaderMatcher_StringMatch:
		var pat interface{}
		switch p := s.StringMatch.GetMatchPattern().(type) {
		case nil:
			pat = C("SMNone")
		case *matcherv3.StringMatcher_Exact:
			pat = C("SMExact", p.Exact)
			c.rates[p.Exact] = struct{}{}
		case *matcherv3.StringMatcher_Prefix:
			pat = C("SMPrefix", p.Prefix)
		case *matcherv3.StringMatcher_SafeRegex:
			pat = C("SMRegex", p.SafeRegex.GetRegex())
			c.regexes[p.SafeRegex.GetRegex()] = struct{}{}
		default:
			pat = C("SMOther")
		}
		spec = C("HSString", pat)
	default:
		spec = C("HSOther")
	}
	return C("Build_header_pb", h.Name, spec)
}

func (c *summCtx) sHeaders(hs []*routev3.HeaderMatcher) interface{} {
	var out []interface{}
	for _, h := range hs {
		out = append(out, c.sHeader(h))
	}
	return Lof(out)
}

func (c *summCtx) sRoute(r *routev3.Route) interface{} {
	var match interface{}
	if m := r.Match; m != nil {
		var ps interface{}
		switch p := m.PathSpecifier.(type) {
		case nil:
			ps = C("PNone")
		case *routev3.RouteMatch_Prefix:
			ps = C("PPrefix", p.Prefix)
		case *routev3.RouteMatch_Path:
			ps = C("PPath", p.Path)
		default:
			ps = C("POther")
		}
		match = Some(C("Build_rmatch_pb", ps, c.sHeaders(m.Headers)))
	}
	var action interface{}
	switch a := r.Action.(type) {
	case nil:
		action = C("ANone")
	case *routev3.Route_Route:
		ra := a.Route
		var cs interface{}
		switch s := ra.ClusterSpecifier.(type) {
		case nil:
			cs = C("CSNone")
		case *routev3.RouteAction_Cluster:
			cs = C("CSCluster", s.Cluster)
		case *routev3.RouteAction_WeightedClusters:
			var l []interface{}
			for _, w := range s.WeightedClusters.GetClusters() {
				l = append(l, C("Build_wc_pb", w.Name, sU32(w.Weight)))
			}
			cs = C("CSWeighted", Lof(l))
		default:
			cs = C("CSOther")
		}
		var rp interface{}
		if p := ra.RetryPolicy; p != nil {
			var bo interface{}
			if b := p.RetryBackOff; b != nil {
				bo = Some(C("Build_backoff_pb", sDur(b.BaseInterval), sDur(b.MaxInterval)))
			}
			rp = Some(C("Build_retry_pb", p.RetryOn, sU32(p.NumRetries), sDur(p.PerTryTimeout), sDur(p.PerTryIdleTimeout),
				c.sHeaders(p.RetriableHeaders), bo))
		}
		action = C("ARoute", C("Build_raction_pb", cs, sDur(ra.Timeout), rp))
	default:
		action = C("AOther")
	}
	return C("Build_route_pb", r.Name, match, action)
}

func (c *summCtx) sRC(rc *routev3.RouteConfiguration) interface{} {
	var vhs []interface{}
	for _, v := range rc.VirtualHosts {
		var rs []interface{}
		for _, r := range v.Routes {
			rs = append(rs, c.sRoute(r))
		}
		vhs = append(vhs, C("Build_vhost_pb", v.Name, Lof(rs)))
	}
	return C("Build_rc_pb", rc.Name, Lof(vhs))
}

func (c *summCtx) sThriftWCs(w *thriftv3.WeightedCluster) interface{} {
	var l []interface{}
	for _, x := range w.GetClusters() {
		l = append(l, C("Build_wc_pb", x.Name, sU32(x.Weight)))
	}
	return Lof(l)
}

func (c *summCtx) sThrift(tp *thriftv3.ThriftProxy) interface{} {
	if tp.RouteConfig == nil {
		return C("Build_tproxy_pb", nil)
	}
	var rs []interface{}
	for _, r := range tp.RouteConfig.Routes {
		var match interface{}
		if m := r.Match; m != nil {
			var sp interface{}
			switch s := m.MatchSpecifier.(type) {
			case nil:
				sp = C("TMNone")
			case *thriftv3.RouteMatch_MethodName:
				sp = C("TMMethod", s.MethodName)
			case *thriftv3.RouteMatch_ServiceName:
				sp = C("TMService", s.ServiceName)
			}
			match = Some(C("Build_tmatch_pb", sp, c.sHeaders(m.Headers)))
		}
		var act interface{}
		if a := r.Route; a != nil {
			switch s := a.ClusterSpecifier.(type) {
			case nil:
				act = Some(C("TANone"))
			case *thriftv3.RouteAction_Cluster:
				act = Some(C("TACluster", s.Cluster))
			case *thriftv3.RouteAction_WeightedClusters:
				act = Some(C("TAWeighted", c.sThriftWCs(s.WeightedClusters)))
			default:
				act = Some(C("TAOther"))
			}
		}
		rs = append(rs, C("Build_troute_pb", match, act))
	}
	return C("Build_tproxy_pb", Some(C("Build_trc_pb", tp.RouteConfig.Name, Lof(rs))))
}

func (c *summCtx) sTSVal(v *structpb.Value) interface{} {
	if n, ok := v.GetKind().(*structpb.Value_NumberValue); ok {
		x := n.NumberValue
		if math.IsNaN(x) || x <= -1 || x >= 4294967296 {
			c.unmodelled = append(c.unmodelled, "TypedStruct number outside the range where float->uint32 conversion is defined")
			return C("TVNum", uint64(0))
		}
		return C("TVNum", uint64(uint32(x)))
	}
	return C("TVOther")
}

func (c *summCtx) sHTTPFilter(f *hcmv3.HttpFilter) interface{} {
	tc, ok := f.ConfigType.(*hcmv3.HttpFilter_TypedConfig)
	if !ok {
		return C("HFNotTyped")
	}
	switch tc.TypedConfig.GetTypeUrl() {
	case xdsresource.RateLimitTypeURL:
		l := &lrlv3.LocalRateLimit{}
		if err := proto.Unmarshal(tc.TypedConfig.GetValue(), l); err != nil {
			return C("HFRateLimitBad")
		}
		if l.TokenBucket == nil {
			return C("HFRateLimit", nil)
		}
		return C("HFRateLimit", Some(P(uint64(l.TokenBucket.MaxTokens), sU32(l.TokenBucket.TokensPerFill))))
	case xdsresource.TypedStructTypeURL:
		ts := &udpatypev1.TypedStruct{}
		if err := proto.Unmarshal(tc.TypedConfig.GetValue(), ts); err != nil {
			return C("HFTypedStructBad")
		}
		tb, ok := ts.GetValue().GetFields()["token_bucket"]
		if !ok {
			return C("HFTypedStruct", nil)
		}
		st, ok := tb.GetKind().(*structpb.Value_StructValue)
		if !ok {
			return C("HFTypedStruct", Some(C("TBNotStruct")))
		}
		var mx, tpf interface{}
		if v, ok := st.StructValue.GetFields()["max_tokens"]; ok {
			mx = Some(c.sTSVal(v))
		}
		if v, ok := st.StructValue.GetFields()["tokens_per_fill"]; ok {
			tpf = Some(c.sTSVal(v))
		}
		return C("HFTypedStruct", Some(C("TBStruct", mx, tpf)))
	}
	return C("HFUnknownUrl")
}

func (c *summCtx) sHCM(h *hcmv3.HttpConnectionManager) interface{} {
	var fs []interface{}
	for _, f := range h.HttpFilters {
		fs = append(fs, c.sHTTPFilter(f))
	}
	var sp interface{}
	switch s := h.RouteSpecifier.(type) {
	case nil:
		sp = C("RSNone")
	case *hcmv3.HttpConnectionManager_Rds:
		sp = C("RSRds", s.Rds.GetRouteConfigName())
	case *hcmv3.HttpConnectionManager_RouteConfig:
		sp = C("RSInline", c.sRC(s.RouteConfig))
	default:
		sp = C("RSOther")
	}
	return C("Build_hcm_pb", Lof(fs), sp)
}

func (c *summCtx) sChain(fc *listenerv3.FilterChain) interface{} {
	var port interface{}
	if p := fc.GetFilterChainMatch().GetDestinationPort(); p != nil {
		port = Some(uint64(p.Value))
	}
	var fs []interface{}
	for _, f := range fc.Filters {
		tc, ok := f.ConfigType.(*listenerv3.Filter_TypedConfig)
		if !ok {
			fs = append(fs, C("NFNotTyped"))
			continue
		}
		switch tc.TypedConfig.GetTypeUrl() {
		case xdsresource.ThriftProxyTypeURL:
			tp := &thriftv3.ThriftProxy{}
			if err := proto.Unmarshal(tc.TypedConfig.GetValue(), tp); err != nil {
				fs = append(fs, C("NFThriftBad"))
			} else {
				fs = append(fs, C("NFThrift", c.sThrift(tp)))
			}
		case xdsresource.HTTPConnManagerTypeURL:
			h := &hcmv3.HttpConnectionManager{}
			if err := proto.Unmarshal(tc.TypedConfig.GetValue(), h); err != nil {
				fs = append(fs, C("NFHcmBad"))
			} else {
				fs = append(fs, C("NFHcm", c.sHCM(h)))
			}
		default:
			fs = append(fs, C("NFUnknownUrl"))
		}
	}
	return C("Build_fchain_pb", port, Lof(fs))
}

func (c *summCtx) sListener(l *listenerv3.Listener) interface{} {
	var chains []interface{}
	for _, fc := range l.FilterChains {
		chains = append(chains, c.sChain(fc))
	}
	var def interface{}
	if l.DefaultFilterChain != nil {
		def = Some(c.sChain(l.DefaultFilterChain))
	}
	return C("Build_listener_pb", l.Name, Lof(chains), def)
}

func (c *summCtx) sCLA(a *endpointv3.ClusterLoadAssignment) interface{} {
	var locs []interface{}
	for _, l := range a.Endpoints {
		var eps []interface{}
		for _, e := range l.LbEndpoints {
			var sock interface{}
			if ep, ok := e.HostIdentifier.(*endpointv3.LbEndpoint_Endpoint); ok && ep.Endpoint != nil {
				if sa, ok := ep.Endpoint.GetAddress().GetAddress().(*corev3.Address_SocketAddress); ok && sa.SocketAddress != nil {
					port := uint64(0)
					if pv, ok := sa.SocketAddress.PortSpecifier.(*corev3.SocketAddress_PortValue); ok {
						port = uint64(pv.PortValue)
					}
					sock = Some(C("Build_sockaddr_pb", sa.SocketAddress.Address, port))
				}
			}
			eps = append(eps, C("Build_lbep_pb", sock, sU32(e.LoadBalancingWeight)))
		}
		locs = append(locs, Lof(eps))
	}
	return C("Build_cla_pb", a.ClusterName, Lof(locs))
}

func (c *summCtx) sCluster(x *clusterv3.Cluster) interface{} {
	var t interface{}
	if ty, ok := x.ClusterDiscoveryType.(*clusterv3.Cluster_Type); ok {
		t = Some(uint64(uint32(ty.Type)))
	}
	var eds interface{}
	if x.EdsClusterConfig != nil {
		eds = Some(x.EdsClusterConfig.ServiceName)
	}
	var od interface{}
	if o := x.OutlierDetection; o != nil {
		od = Some(C("Build_outlier_pb", sU32(o.FailurePercentageThreshold), sU32(o.FailurePercentageRequestVolume)))
	}
	var la interface{}
	if x.LoadAssignment != nil {
		la = Some(c.sCLA(x.LoadAssignment))
	}
	return C("Build_cluster_pb", x.Name, t, uint64(uint32(x.LbPolicy)), eds, od, la)
}

func (c *summCtx) sNameTable(t *dnsProto.NameTable) interface{} {
	keys := make([]string, 0, len(t.Table))
	for k := range t.Table {
		keys = append(keys, k)
	}
	sort.Strings(keys)
	var kvs []interface{}
	for _, k := range keys {
		var ips []interface{}
		for _, ip := range t.Table[k].GetIps() {
			ips = append(ips, ip)
		}
		kvs = append(kvs, P(k, Lof(ips)))
	}
	return C("Build_nt_pb", Lof(kvs))
}

// summarise reports what an Any in a response of the given kind contains.
func (c *summCtx) summarise(kind string, a *anypb.Any) interface{} {
	if a.GetTypeUrl() != typeURLs[kind] {
		return C("RWrongUrl")
	}
	var m proto.Message
	switch kind {
	case "lds":
		m = &listenerv3.Listener{}
	case "rds":
		m = &routev3.RouteConfiguration{}
	case "cds":
		m = &clusterv3.Cluster{}
	case "eds":
		m = &endpointv3.ClusterLoadAssignment{}
	case "nds":
		m = &dnsProto.NameTable{}
	}
	if err := proto.Unmarshal(a.GetValue(), m); err != nil {
		return C("RUnparsable")
	}
	switch x := m.(type) {
	case *listenerv3.Listener:
		return C("RGood", c.sListener(x))
	case *routev3.RouteConfiguration:
		return C("RGood", c.sRC(x))
	case *clusterv3.Cluster:
		return C("RGood", c.sCluster(x))
	case *endpointv3.ClusterLoadAssignment:
		return C("RGood", c.sCLA(x))
	case *dnsProto.NameTable:
		return C("RGood", c.sNameTable(x))
	}
	return C("RUnparsable")
}

// oracle tables: regexp validity (Go regexp), ParseFloat of exact-match values (as float64 bits)
func (c *summCtx) oracles() (reValid, rates interface{}) {
	var rv []interface{}
	for _, r := range sortedKeys(c.regexes) {
		_, err := regexp.Compile(r)
		rv = append(rv, P(r, err == nil))
	}
	var rt []interface{}
	for _, s := range sortedKeys(c.rates) {
		if f, err := strconv.ParseFloat(s, 64); err == nil {
			rt = append(rt, P(s, Some(math.Float64bits(f))))
		} else {
			rt = append(rt, P(s, nil))
		}
	}
	return Lof(rv), Lof(rt)
}
