package main

import (
	"context"
	"encoding/json"
	"fmt"
	"regexp"
	"sort"

	"github.com/bytedance/gopkg/cloud/metainfo"
	"github.com/cloudwego/kitex/pkg/rpcinfo"
	"github.com/cloudwego/kitex/transport"
	"google.golang.org/protobuf/types/known/anypb"

	"github.com/kitex-contrib/xds/core/xdsresource"
	"github.com/kitex-contrib/xds/xdssuite"
)

// engine "route" (C08): tables are decoded by the real decoders from generated protos, served
// by a fake manager, and calls are routed through the public XDSRouter.Route.
type routeCall struct {
	Service   string      `json:"service"`
	Pkg       string      `json:"pkg"`
	Svc       string      `json:"svc"`
	Method    string      `json:"method"`
	ToMethod  string      `json:"to_method"`
	GRPC      bool        `json:"grpc"`
	MD        [][2]string `json:"md"`
	Extractor bool        `json:"extractor"` // use WithRouterMetaExtractor instead of metainfo
	// Decoy: metainfo values put into the context of a call that uses a custom extractor: they must be ignored
	Decoy [][2]string `json:"decoy"`
}

type routeCase struct {
	ID     int               `json:"id"`
	LDS    json.RawMessage   `json:"lds"`   // resource AST, or null: listener lookup fails
	Named  []json.RawMessage `json:"named"` // rc resource ASTs
	Calls  []routeCall       `json:"calls"`
	Repeat int               `json:"repeat"`
	// PrevLDS: an earlier version of the listener (same name) that the control plane had pushed, and that every router
	// has been used with, before the tables above came into force (handlers registered on the manager are run for both
	// pushes, state-of-the-world: a listener that is gone is absent from the second map)
	PrevLDS   json.RawMessage   `json:"prev_lds"`
	PrevNamed []json.RawMessage `json:"prev_named"` // named route tables that existed (and were used) earlier and may be gone now
}

type routeRes struct {
	Err     bool   `json:"err"`
	Panic   string `json:"panic"`
	Cluster string `json:"cluster"`
	Timeout int64  `json:"timeout"`
}

type routeObs struct {
	ID        int          `json:"id"`
	DecodeErr bool         `json:"decode_err"`
	SrcLis    interface{}  `json:"src_lis"`
	SrcNamed  interface{}  `json:"src_named"`
	Lis       interface{}  `json:"lis"`
	Named     interface{}  `json:"named"`
	ReValid   interface{}  `json:"re_valid"`
	ReMatch   interface{}  `json:"re_match"`
	Results   [][]routeRes `json:"results"`
}

func init() { engines["route"] = runRoute }

func newRI(c routeCall) rpcinfo.RPCInfo {
	to := rpcinfo.NewEndpointInfo(c.Service, c.ToMethod, nil, nil)
	cfg := rpcinfo.NewRPCConfig()
	if c.GRPC {
		_ = rpcinfo.AsMutableRPCConfig(cfg).SetTransportProtocol(transport.GRPC)
	}
	return rpcinfo.NewRPCInfo(nil, to, rpcinfo.NewInvocation(c.Svc, c.Method, c.Pkg), cfg, rpcinfo.NewRPCStats())
}

func routeSafely(r *xdssuite.XDSRouter, ctx context.Context, ri rpcinfo.RPCInfo) (res routeRes) {
	defer func() {
		if e := recover(); e != nil {
			res = routeRes{Panic: fmt.Sprint(e)}
		}
	}()
	rr, err := r.Route(ctx, ri)
	if err != nil {
		return routeRes{Err: true}
	}
	return routeRes{Cluster: rr.ClusterPicked, Timeout: int64(rr.RPCTimeout)}
}

func runRoute(raw json.RawMessage) (interface{}, error) {
	var c routeCase
	if err := json.Unmarshal(raw, &c); err != nil {
		return nil, err
	}
	o := routeObs{ID: c.ID}
	ctxs := newSummCtx()
	fm := newFakeManager()
	lisName := ""
	if len(c.LDS) > 0 && string(c.LDS) != "null" {
		n, err := parseNode(c.LDS)
		if err != nil {
			return nil, err
		}
		a, err := buildRes("lds", n)
		if err != nil {
			return nil, err
		}
		sum := ctxs.summarise("lds", a)
		res, err := xdsresource.UnmarshalLDS([]*anypb.Any{a})
		if err != nil || len(res) != 1 {
			o.DecodeErr = true
			return o, nil
		}
		if s, ok := sum.([]interface{}); ok && len(s) == 2 {
			o.SrcLis = Some(s[1])
		}
		observeJSON(c.ID, res)
		for name, l := range res {
			lisName = name
			fm.set(xdsresource.ListenerType, name, l, nil)
			o.Lis = C("GOk", dListener(l))
		}
	} else {
		o.Lis = C("GErr")
	}
	var anys []*anypb.Any
	var srcNamed []interface{}
	for _, r := range c.Named {
		n, err := parseNode(r)
		if err != nil {
			return nil, err
		}
		a, err := buildRes("rds", n)
		if err != nil {
			return nil, err
		}
		anys = append(anys, a)
	}
	named, err := xdsresource.UnmarshalRDS(anys)
	if err != nil {
		o.DecodeErr = true
		return o, nil
	}
	observeJSON(c.ID, named)
	// source tables keyed by name: later resources of a name win, as in the decoder
	srcByName := map[string]interface{}{}
	for _, a := range anys {
		if s, ok := ctxs.summarise("rds", a).([]interface{}); ok && len(s) == 2 {
			rc := s[1].([]interface{})
			srcByName[rc[1].(string)] = s[1]
		}
	}
	names := make([]string, 0, len(srcByName))
	for k := range srcByName {
		names = append(names, k)
	}
	sort.Strings(names)
	for _, k := range names {
		srcNamed = append(srcNamed, P(k, srcByName[k]))
	}
	o.SrcNamed = Lof(srcNamed)
	for name, rc := range named {
		fm.set(xdsresource.RouteConfigType, name, rc, nil)
	}
	o.Named = dMap(named)
	setTarget(fm)
	// oracle tables
	values := map[string]struct{}{}
	for _, call := range c.Calls {
		for _, kv := range call.MD {
			values[kv[1]] = struct{}{}
		}
	}
	o.ReValid, o.ReMatch = regexTables(ctxs, values)
	rep := c.Repeat
	if rep < 1 {
		rep = 1
	}
	type prepared struct {
		call   routeCall
		ctx    context.Context
		router *xdssuite.XDSRouter
	}
	var preps []prepared
	for _, call := range c.Calls {
		if call.Service == "" {
			call.Service = lisName
		}
		md := map[string]string{}
		ctx := context.Background()
		for _, kv := range call.MD {
			md[kv[0]] = kv[1]
			if !call.Extractor {
				ctx = metainfo.WithValue(ctx, kv[0], kv[1])
			}
		}
		var router *xdssuite.XDSRouter
		if !call.Extractor {
			// decoys of a call that uses the default extractor are PERSISTENT metainfo values: the default extractor reads
			// the transient ones only (and returns a nil map when there are none)
			for _, kv := range call.Decoy {
				ctx = metainfo.WithPersistentValue(ctx, kv[0], kv[1])
			}
		}
		if call.Extractor {
			for _, kv := range call.Decoy {
				ctx = metainfo.WithValue(ctx, kv[0], kv[1])
			}
			ext := md
			if len(ext) == 0 && len(call.Decoy)%2 == 1 {
				ext = nil // an extractor may also return a nil map
			}
			router = xdssuite.NewXDSRouter(xdssuite.WithRouterMetaExtractor(func(context.Context) map[string]string { return ext }))
		} else {
			router = xdssuite.NewXDSRouter()
		}
		preps = append(preps, prepared{call, ctx, router})
	}
	hasPrevLDS := len(c.PrevLDS) > 0 && string(c.PrevLDS) != "null"
	if hasPrevLDS || len(c.PrevNamed) > 0 {
		// the earlier pushes: served and used, then replaced by the tables in force
		curL := fm.snapshot(xdsresource.ListenerType)
		curN := fm.snapshot(xdsresource.RouteConfigType)
		if hasPrevLDS {
			if n, err := parseNode(c.PrevLDS); err == nil {
				if a, err := buildRes("lds", n); err == nil {
					if prev, err := xdsresource.UnmarshalLDS([]*anypb.Any{a}); err == nil && len(prev) == 1 {
						fm.clear(xdsresource.ListenerType)
						for name, l := range prev {
							fm.set(xdsresource.ListenerType, name, l, nil)
							if lisName == "" {
								lisName = name
							}
						}
						fm.fire(xdsresource.ListenerType)
					}
				}
			}
		}
		if len(c.PrevNamed) > 0 {
			var pa []*anypb.Any
			for _, r := range c.PrevNamed {
				if n, err := parseNode(r); err == nil {
					if a, err := buildRes("rds", n); err == nil {
						pa = append(pa, a)
					}
				}
			}
			if prevN, err := xdsresource.UnmarshalRDS(pa); err == nil {
				for name, rc := range prevN {
					fm.set(xdsresource.RouteConfigType, name, rc, nil)
				}
				fm.fire(xdsresource.RouteConfigType)
			}
		}
		for i := range preps {
			if preps[i].call.Service == "" {
				preps[i].call.Service = lisName
			}
			routeSafely(preps[i].router, preps[i].ctx, newRI(preps[i].call))
		}
		fm.clear(xdsresource.ListenerType)
		for name, r := range curL {
			fm.set(xdsresource.ListenerType, name, r.val, r.err)
		}
		fm.fire(xdsresource.ListenerType)
		fm.clear(xdsresource.RouteConfigType)
		for name, r := range curN {
			fm.set(xdsresource.RouteConfigType, name, r.val, r.err)
		}
		fm.fire(xdsresource.RouteConfigType)
	}
	for _, p := range preps {
		var rs []routeRes
		for i := 0; i < rep; i++ {
			rs = append(rs, routeSafely(p.router, p.ctx, newRI(p.call)))
		}
		o.Results = append(o.Results, rs)
	}
	return o, nil
}

// regexTables: validity of each regular expression met in the tables and its truth on each metadata value (Go regexp).
func regexTables(ctxs *summCtx, values map[string]struct{}) (interface{}, interface{}) {
	var rv, rm []interface{}
	for _, r := range sortedKeys(ctxs.regexes) {
		re, err := regexp.Compile(r)
		rv = append(rv, P(r, err == nil))
		if err == nil {
			var row []interface{}
			for _, v := range sortedKeys(values) {
				row = append(row, P(v, re.MatchString(v)))
			}
			rm = append(rm, P(r, Lof(row)))
		}
	}
	return Lof(rv), Lof(rm)
}
