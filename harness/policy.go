package main

import (
	"math"
	"sort"
	"sync"

	"github.com/cloudwego/kitex/client"
	"github.com/cloudwego/kitex/pkg/circuitbreak"
	"github.com/cloudwego/kitex/pkg/limit"
	"github.com/cloudwego/kitex/pkg/retry"
	"github.com/cloudwego/kitex/pkg/utils"
	"github.com/cloudwego/kitex/server"

	"github.com/kitex-contrib/xds/xdssuite"
)

// the real xdssuite policy consumers, registered on the manager under test through the
// process-wide proxy manager; read back through public Kitex plumbing.
type suitesImpl struct {
	cb      *circuitbreak.CBSuite
	rc      *retry.Container
	lim     *limit.Option
	updater *recUpdater
}

type recUpdater struct {
	mu     sync.Mutex
	pushes []interface{}
}

func qpsOf(q int) interface{} {
	if q <= 0 || q == math.MaxInt {
		return nil
	}
	return Some(uint64(q))
}

func (u *recUpdater) UpdateLimit(opt *limit.Option) bool {
	u.mu.Lock()
	defer u.mu.Unlock()
	u.pushes = append(u.pushes, qpsOf(opt.MaxQPS))
	return true
}

func newSuitesImpl() *suitesImpl { return &suitesImpl{} }

func (s *suitesImpl) register(what string, port uint32) {
	switch what {
	case "cb":
		o := &client.Options{}
		xdssuite.NewCircuitBreaker(xdssuite.WithServiceCircuitBreak(true)).F(o, &utils.Slice{})
		s.cb = o.CBSuite
	case "retry":
		o := &client.Options{}
		xdssuite.NewRetryPolicy().F(o, &utils.Slice{})
		s.rc = o.RetryContainer
	case "limiter":
		o := &server.Options{}
		o.Limit.Limits = nil
		xdssuite.NewLimiter(xdssuite.WithServicePort(port)).F(o, &utils.Slice{})
		s.lim = o.Limit.Limits
		s.updater = &recUpdater{}
		if s.lim != nil && s.lim.UpdateControl != nil {
			s.lim.UpdateControl(s.updater)
		}
	}
}

func (s *suitesImpl) dump() interface{} {
	var cb, rt, lim interface{}
	if s.cb != nil {
		var kvs []interface{}
		if d, ok := s.cb.Dump().(map[string]interface{}); ok {
			if cfg, ok := d["cb_config"].(map[string]interface{}); ok {
				if svc, ok := cfg["service"].(map[string]interface{}); ok {
					keys := make([]string, 0, len(svc))
					for k := range svc {
						keys = append(keys, k)
					}
					sort.Strings(keys)
					for _, k := range keys {
						if c, ok := svc[k].(circuitbreak.CBConfig); ok {
							kvs = append(kvs, P(k, P(P(c.Enable, uint64(math.Round(c.ErrRate*100))), uint64(c.MinSample))))
						}
					}
				}
			}
		}
		cb = Some(Lof(kvs))
	}
	if s.rc != nil {
		var kvs []interface{}
		if d, ok := s.rc.Dump().(map[string]interface{}); ok {
			keys := make([]string, 0, len(d))
			for k := range d {
				if k != "has_code_cfg" && k != "msg" {
					keys = append(keys, k)
				}
			}
			sort.Strings(keys)
			for _, k := range keys {
				rd, ok := d[k].(map[string]interface{})
				if !ok {
					continue
				}
				fp, ok := rd["failure_retry"].(*retry.FailurePolicy)
				if !ok || fp == nil {
					kvs = append(kvs, P(k, C("Build_rpol", uint64(999), uint64(0), uint64(0), P(P(uint64(9), uint64(0)), uint64(0)))))
					continue
				}
				kind, x, y := uint64(0), uint64(0), uint64(0)
				if bo := fp.BackOffPolicy; bo != nil {
					switch bo.BackOffType {
					case retry.FixedBackOffType:
						kind, x = 1, uint64(bo.CfgItems[retry.FixMSBackOffCfgKey])
					case retry.RandomBackOffType:
						kind, x, y = 2, uint64(bo.CfgItems[retry.MinMSBackOffCfgKey]), uint64(bo.CfgItems[retry.MaxMSBackOffCfgKey])
					}
				}
				kvs = append(kvs, P(k, C("Build_rpol", uint64(fp.StopPolicy.MaxRetryTimes), uint64(fp.StopPolicy.MaxDurationMS),
					math.Float64bits(fp.StopPolicy.CBPolicy.ErrorRate), P(P(kind, x), y))))
			}
		}
		rt = Some(Lof(kvs))
	}
	if s.lim != nil {
		s.updater.mu.Lock()
		pushes := append([]interface{}(nil), s.updater.pushes...)
		s.updater.mu.Unlock()
		lim = Some(P(qpsOf(s.lim.MaxQPS), Lof(pushes)))
	}
	return C("Build_pol_obs", cb, rt, lim)
}
