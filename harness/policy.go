package main

// placeholder until the policy consumers (C16-C18) are wired in
type suitesImpl struct{}

func newSuitesImpl() *suitesImpl                     { return &suitesImpl{} }
func (s *suitesImpl) register(what string, p uint32) {}
func (s *suitesImpl) dump() interface{}              { return nil }
