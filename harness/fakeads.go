package main

import (
	"context"
	"fmt"
	"sync"
	"time"

	"github.com/cloudwego/kitex/client/callopt"
	"github.com/cloudwego/kitex/pkg/streaming"
	discoveryv3 "github.com/envoyproxy/go-control-plane/envoy/service/discovery/v3"

	"github.com/kitex-contrib/xds/core/manager"
)

// fakeADS is an in-memory ADS client: every stream it hands out is scripted by the harness.
type fakeADS struct {
	manager.ADSClient // nil; only StreamAggregatedResources is used by the code under test

	mu         sync.Mutex
	streams    []*fakeStream
	failCreate int // number of upcoming stream creations that fail
	failFirst  int // number of upcoming streams whose first Send fails
	created    chan *fakeStream
	// autoReply, when set, is called (outside any lock) for every request a stream receives
	autoReply func(s *fakeStream, req *discoveryv3.DiscoveryRequest)
}

func newFakeADS() *fakeADS {
	return &fakeADS{created: make(chan *fakeStream, 64)}
}

func (a *fakeADS) StreamAggregatedResources(ctx context.Context, _ ...callopt.Option) (manager.ADSStream, error) {
	a.mu.Lock()
	defer a.mu.Unlock()
	if a.failCreate > 0 {
		a.failCreate--
		return nil, fmt.Errorf("fake: stream creation failed")
	}
	s := &fakeStream{ads: a, id: len(a.streams), recvCh: make(chan recvItem, 4096), markers: make(chan string, 64)}
	if a.failFirst > 0 {
		a.failFirst--
		s.sendErrs = 1
	}
	a.streams = append(a.streams, s)
	select {
	case a.created <- s:
	default:
	}
	return s, nil
}

func (a *fakeADS) stream(i int) *fakeStream {
	a.mu.Lock()
	defer a.mu.Unlock()
	if i < 0 {
		i = len(a.streams) + i
	}
	if i < 0 || i >= len(a.streams) {
		return nil
	}
	return a.streams[i]
}

func (a *fakeADS) numStreams() int {
	a.mu.Lock()
	defer a.mu.Unlock()
	return len(a.streams)
}

type recvItem struct {
	resp *discoveryv3.DiscoveryResponse
	err  error
}

type fakeStream struct {
	streaming.Stream // nil
	ads              *fakeADS
	id               int

	mu          sync.Mutex
	sent        []*discoveryv3.DiscoveryRequest
	recvCh      chan recvItem
	recvEntered int
	recvCond    *sync.Cond
	closed      bool
	sendErrs    int           // number of upcoming Sends that fail
	sendBlock   chan struct{} // when non-nil, Send blocks until it is closed
	markers     chan string
}

func (s *fakeStream) Send(req *discoveryv3.DiscoveryRequest) error {
	if len(req.TypeUrl) >= len(manager.VerifMarkerTypeURL) && req.TypeUrl[:len(manager.VerifMarkerTypeURL)] == manager.VerifMarkerTypeURL {
		s.markers <- req.TypeUrl[len(manager.VerifMarkerTypeURL):]
		return nil
	}
	s.mu.Lock()
	blk := s.sendBlock
	s.mu.Unlock()
	if blk != nil {
		<-blk
	}
	s.mu.Lock()
	if s.sendErrs > 0 {
		s.sendErrs--
		s.mu.Unlock()
		return fmt.Errorf("fake: send failed")
	}
	s.sent = append(s.sent, req)
	s.mu.Unlock()
	if f := s.ads.autoReply; f != nil {
		f(s, req)
	}
	return nil
}

func (s *fakeStream) Recv() (*discoveryv3.DiscoveryResponse, error) {
	s.mu.Lock()
	s.recvEntered++
	if s.recvCond != nil {
		s.recvCond.Broadcast()
	}
	s.mu.Unlock()
	it := <-s.recvCh
	return it.resp, it.err
}

func (s *fakeStream) Close() error {
	s.mu.Lock()
	s.closed = true
	s.mu.Unlock()
	return nil
}

// waitRecvEntered blocks until Recv has been entered at least n times.
func (s *fakeStream) waitRecvEntered(n int, d time.Duration) bool {
	deadline := time.Now().Add(d)
	s.mu.Lock()
	if s.recvCond == nil {
		s.recvCond = sync.NewCond(&s.mu)
	}
	defer s.mu.Unlock()
	for s.recvEntered < n {
		if time.Now().After(deadline) {
			return false
		}
		// timed wait: wake up periodically
		go func() {
			time.Sleep(2 * time.Millisecond)
			s.mu.Lock()
			s.recvCond.Broadcast()
			s.mu.Unlock()
		}()
		s.recvCond.Wait()
	}
	return true
}

func (s *fakeStream) entered() int {
	s.mu.Lock()
	defer s.mu.Unlock()
	return s.recvEntered
}

func (s *fakeStream) sentCopy() []*discoveryv3.DiscoveryRequest {
	s.mu.Lock()
	defer s.mu.Unlock()
	return append([]*discoveryv3.DiscoveryRequest(nil), s.sent...)
}

// waitMarker waits until the stream has seen the flush marker with the tag.
func (s *fakeStream) waitMarker(tag string, d time.Duration) bool {
	t := time.NewTimer(d)
	defer t.Stop()
	for {
		select {
		case m := <-s.markers:
			if m == tag {
				return true
			}
		case <-t.C:
			return false
		}
	}
}
