package main

import (
	"encoding/json"
	"fmt"

	v3core "github.com/envoyproxy/go-control-plane/envoy/config/core/v3"

	"github.com/kitex-contrib/xds/core/manager"
)

// engine "fqdn" (C14): tryExpandFQDN, resolveAddr, getListenerName on the real client with
// a given name table.
type fqdnCase struct {
	ID    int                 `json:"id"`
	NS    string              `json:"ns"`
	Dom   string              `json:"dom"`
	Table map[string][]string `json:"table"`
	Host  string              `json:"host"`
	// EnvDom, when present, makes the configuration come from the ENVIRONMENT (newBootstrapConfig): POD_NAMESPACE = NS and
	// KITEX_XDS_DOMAIN unset ("unset"), present but empty ("empty") or set to Dom ("set"); Dom is then the domain the
	// bootstrap rules give (the orchestrator computes it: unset and empty both mean cluster.local)
	EnvDom string `json:"env_dom"`
}

type fqdnObs struct {
	ID      int     `json:"id"`
	Expand  string  `json:"expand"`
	Expand2 string  `json:"expand2"`
	Resolve string  `json:"resolve"`
	LName   *string `json:"lname"`
}

type quietManager struct {
	m   *manager.VerifManager
	cfg *manager.BootstrapConfig
}

var quietManagers = map[string]*quietManager{}

// quiet returns a manager (no warm-up, stream silent) for the namespace/domain.
func quiet(ns, dom, envDom string) (*quietManager, error) {
	key := ns + "\x00" + dom + "\x00" + envDom
	if q, ok := quietManagers[key]; ok {
		return q, nil
	}
	svr := &manager.XDSServerConfig{SvrAddr: "fake", SvrName: "fake", NDSNotRequired: true, LDSNotRequired: true}
	cfg := manager.VerifBootstrap(ns, dom, &v3core.Node{Id: "verif"}, svr)
	if envDom != "" {
		pod, ip := "pod", "10.0.0.1"
		env := map[string]*string{"POD_NAMESPACE": &ns, "POD_NAME": &pod, "INSTANCE_IP": &ip}
		switch envDom {
		case "empty":
			e := ""
			env["KITEX_XDS_DOMAIN"] = &e
		case "set":
			env["KITEX_XDS_DOMAIN"] = &dom
		}
		setEnv(env)
		c2, err := manager.VerifBootstrapFromEnv(svr)
		if err != nil || c2 == nil {
			return nil, fmt.Errorf("bootstrap from the environment failed: %v", err)
		}
		cfg = c2
	}
	m, err := manager.VerifNewManager(cfg, newFakeADS(), true)
	if err != nil {
		return nil, err
	}
	q := &quietManager{m: m, cfg: cfg}
	quietManagers[key] = q
	return q, nil
}

func init() { engines["fqdn"] = runFqdn }

func runFqdn(raw json.RawMessage) (interface{}, error) {
	var c fqdnCase
	if err := json.Unmarshal(raw, &c); err != nil {
		return nil, err
	}
	q, err := quiet(c.NS, c.Dom, c.EnvDom)
	if err != nil {
		return nil, fmt.Errorf("manager: %v", err)
	}
	t := c.Table
	if t == nil {
		t = map[string][]string{}
	}
	q.m.VerifSetTable(t)
	o := fqdnObs{ID: c.ID}
	o.Expand = q.cfg.VerifExpandFQDN(c.Host)
	o.Expand2 = q.cfg.VerifExpandFQDN(o.Expand)
	o.Resolve = q.m.VerifResolveAddr(c.Host)
	if ln, err := q.m.VerifListenerName(c.Host); err == nil {
		o.LName = &ln
	}
	return o, nil
}
