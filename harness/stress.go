package main

import (
	"context"
	"encoding/json"
	"fmt"
	"math/rand"
	"os"
	"sync"
	"sync/atomic"
	"time"

	clusterv3 "github.com/envoyproxy/go-control-plane/envoy/config/cluster/v3"
	endpointv3 "github.com/envoyproxy/go-control-plane/envoy/config/endpoint/v3"
	routev3 "github.com/envoyproxy/go-control-plane/envoy/config/route/v3"
	v3core "github.com/envoyproxy/go-control-plane/envoy/config/core/v3"
	discoveryv3 "github.com/envoyproxy/go-control-plane/envoy/service/discovery/v3"
	"google.golang.org/protobuf/types/known/anypb"
	"google.golang.org/protobuf/types/known/wrapperspb"

	"github.com/kitex-contrib/xds/core/manager"
	"github.com/kitex-contrib/xds/core/xdsresource"
)

// engine "stress" (C07, thorough tier; run from a binary built with -race): a concurrent mix of lookups
// (hits and misses of several types), control-plane responses on the stream, direct updates, handler
// registrations with the real xdssuite consumers, dumps, stream failures with reconnects and reads of the
// tagged views, on one real manager, for a fixed time.  Observed: does everything return (watchdog), plus
// whatever the race detector prints on stderr (collected by the orchestrator).
type stressCase struct {
	ID      int   `json:"id"`
	Seed    int64 `json:"seed"`
	Millis  int   `json:"millis"`
	Workers int   `json:"workers"`
}

type stressRes struct {
	ID         int   `json:"id"`
	Lookups    int64 `json:"lookups"`
	Hits       int64 `json:"hits"`
	Responses  int64 `json:"responses"`
	Updates    int64 `json:"updates"`
	Registered int64 `json:"registered"`
	Dumps      int64 `json:"dumps"`
	Reconnects int64 `json:"reconnects"`
	Bad        int64 `json:"bad"`        // lookups returning neither / both / a wrong kind / panicking
	Overlap    int64 `json:"overlap"`    // invocations of one update handler that overlapped in time
	Regress    int64 `json:"regress"`    // invocations of one update handler that saw an older cluster set after a newer one
	Probes     int64 `json:"probes"`     // probe handlers registered
	Behind     int64 `json:"behind"`     // lookups that exposed a cluster set newer than what a handler registered before the lookup had seen
	Shrinks    int64 `json:"shrinks"`    // requests of a type listing fewer names than the previous request of that type on the same stream (no evictions here)
	Quiet      bool  `json:"quiet"`      // the end-of-run quiescence was reached (the wire-stale check ran)
	WireStale  int64 `json:"wire_stale"` // types whose last request on the live stream differs from the interest set once everything is quiet
	Unfinished bool  `json:"unfinished"` // some goroutine had not returned 10 s after the stop signal
}

func cdsResponse(ver int, names []string) *discoveryv3.DiscoveryResponse {
	var anys []*anypb.Any
	for i, n := range names {
		cl := &clusterv3.Cluster{Name: n, ClusterDiscoveryType: &clusterv3.Cluster_Type{Type: clusterv3.Cluster_EDS},
			EdsClusterConfig: &clusterv3.Cluster_EdsClusterConfig{ServiceName: fmt.Sprintf("v%09d", ver)},
			OutlierDetection: &clusterv3.OutlierDetection{FailurePercentageThreshold: wrapperspb.UInt32(uint32(10 + i)), FailurePercentageRequestVolume: wrapperspb.UInt32(uint32(ver%7 + 1))}}
		a, err := anypb.New(cl)
		if err != nil {
			continue
		}
		a.TypeUrl = xdsresource.ClusterTypeURL
		anys = append(anys, a)
	}
	return &discoveryv3.DiscoveryResponse{VersionInfo: fmt.Sprint(ver), Nonce: fmt.Sprint("n", ver), TypeUrl: xdsresource.ClusterTypeURL, Resources: anys}
}

func edsResponse(ver int, names []string) *discoveryv3.DiscoveryResponse {
	var anys []*anypb.Any
	for i, n := range names {
		cla := &endpointv3.ClusterLoadAssignment{ClusterName: n, Endpoints: []*endpointv3.LocalityLbEndpoints{{LbEndpoints: []*endpointv3.LbEndpoint{{
			HostIdentifier: &endpointv3.LbEndpoint_Endpoint{Endpoint: &endpointv3.Endpoint{Address: &v3core.Address{Address: &v3core.Address_SocketAddress{
				SocketAddress: &v3core.SocketAddress{Address: fmt.Sprintf("10.0.%d.%d", i, ver%250), PortSpecifier: &v3core.SocketAddress_PortValue{PortValue: 80}}}}}},
			LoadBalancingWeight: wrapperspb.UInt32(uint32(ver%5 + 1))}}}}}
		a, err := anypb.New(cla)
		if err != nil {
			continue
		}
		a.TypeUrl = xdsresource.EndpointTypeURL
		anys = append(anys, a)
	}
	return &discoveryv3.DiscoveryResponse{VersionInfo: fmt.Sprint(ver), Nonce: fmt.Sprint("e", ver), TypeUrl: xdsresource.EndpointTypeURL, Resources: anys}
}

func rdsResponse(ver int, names []string) *discoveryv3.DiscoveryResponse {
	var anys []*anypb.Any
	for _, n := range names {
		rc := &routev3.RouteConfiguration{Name: n, VirtualHosts: []*routev3.VirtualHost{{Name: "vh", Routes: []*routev3.Route{{
			Match:  &routev3.RouteMatch{PathSpecifier: &routev3.RouteMatch_Prefix{Prefix: "/"}},
			Action: &routev3.Route_Route{Route: &routev3.RouteAction{ClusterSpecifier: &routev3.RouteAction_Cluster{Cluster: fmt.Sprint("c", ver%6)}}}}}}}}
		a, err := anypb.New(rc)
		if err != nil {
			continue
		}
		a.TypeUrl = xdsresource.RouteTypeURL
		anys = append(anys, a)
	}
	return &discoveryv3.DiscoveryResponse{VersionInfo: fmt.Sprint(ver), Nonce: fmt.Sprint("r", ver), TypeUrl: xdsresource.RouteTypeURL, Resources: anys}
}

func sameSet(a, b []string) bool {
	if len(a) != len(b) {
		return false
	}
	m := map[string]bool{}
	for _, x := range a {
		m[x] = true
	}
	for _, x := range b {
		if !m[x] {
			return false
		}
	}
	return len(m) == len(b)
}

func init() {
	engines["stress"] = func(raw json.RawMessage) (interface{}, error) {
		var c stressCase
		if err := json.Unmarshal(raw, &c); err != nil {
			return nil, err
		}
		res := &stressRes{ID: c.ID}
		ads := newFakeADS()
		cfg := manager.VerifBootstrap("default", "cluster.local", &v3core.Node{Id: "stress"}, &manager.XDSServerConfig{
			SvrAddr: "fake", SvrName: "fake", NDSNotRequired: true, LDSNotRequired: true, FetchXDSTimeout: 20 * time.Millisecond,
		})
		dir, _ := os.MkdirTemp("", "verif-stress")
		defer os.RemoveAll(dir)
		m, err := manager.VerifNewManager(cfg, ads, true, manager.Option{F: func(o *manager.Options) { o.DumpPath = dir + "/dump.json" }})
		if err != nil {
			return nil, err
		}
		setTarget(m)
		defer setTarget(nil)
		names := []string{"c0", "c1", "c2", "c3", "c4", "c5"}
		var fresh int64
		type probe struct{ last, ready int64 }
		var probesMu sync.Mutex
		var probes []*probe
		stop := make(chan struct{})
		var wg sync.WaitGroup
		nworkers := 0
		worker := func(f func(r *rand.Rand)) {
			wg.Add(1)
			nworkers++
			seed := c.Seed*1000 + int64(nworkers)
			go func() {
				defer wg.Done()
				r := rand.New(rand.NewSource(seed))
				for {
					select {
					case <-stop:
						return
					default:
					}
					f(r)
				}
			}()
		}
		kinds := []struct {
			rt   xdsresource.ResourceType
			name string
		}{{xdsresource.ClusterType, "cds"}, {xdsresource.RouteConfigType, "rds"}, {xdsresource.EndpointsType, "eds"}, {xdsresource.ListenerType, "lds"}}
		nw := c.Workers
		if nw < 2 {
			nw = 2
		}
		for i := 0; i < nw; i++ {
			worker(func(r *rand.Rand) {
				k := kinds[r.Intn(len(kinds))]
				ctx, cancel := context.WithTimeout(context.Background(), time.Duration(r.Intn(8))*time.Millisecond)
				var gr getRet
				var ready []*probe
				if k.name == "cds" {
					probesMu.Lock()
					for _, p := range probes {
						if atomic.LoadInt64(&p.ready) == 1 {
							ready = append(ready, p)
						}
					}
					probesMu.Unlock()
				}
				func() {
					defer func() {
						if e := recover(); e != nil {
							gr.pan = "panic"
						}
					}()
					name := names[r.Intn(len(names))]
					if r.Intn(3) == 0 {
						// a name nobody has asked for yet: the interest set of the type keeps growing, so a request built
						// from an older copy of it shows up as a shrinking name list on the wire
						name = fmt.Sprintf("fresh-%d", atomic.AddInt64(&fresh, 1))
					}
					gr.v, gr.err = m.Get(ctx, k.rt, name)
				}()
				cancel()
				if cl, ok := gr.v.(*xdsresource.ClusterResource); ok && cl != nil && gr.err == nil {
					var seen int64
					if _, err := fmt.Sscanf(cl.EndpointName, "v%d", &seen); err == nil {
						for _, p := range ready {
							if atomic.LoadInt64(&p.last) < seen {
								atomic.AddInt64(&res.Behind, 1)
							}
						}
					}
				}
				atomic.AddInt64(&res.Lookups, 1)
				switch kk, _ := classify(k.name, &gr); kk {
				case "val":
					atomic.AddInt64(&res.Hits, 1)
				case "err":
				default:
					atomic.AddInt64(&res.Bad, 1)
				}
			})
		}
		// control plane: CDS / EDS / RDS responses with varying subsets on the live stream
		var ver int64
		worker(func(r *rand.Rand) {
			v := int(atomic.AddInt64(&ver, 1))
			var sub []string
			for _, n := range names {
				if r.Intn(3) > 0 {
					sub = append(sub, n)
				}
			}
			if s := ads.stream(-1); s != nil {
				select {
				case s.recvCh <- recvItem{resp: [](func(int, []string) *discoveryv3.DiscoveryResponse){cdsResponse, edsResponse, rdsResponse}[r.Intn(3)](v, sub)}:
					atomic.AddInt64(&res.Responses, 1)
				default:
				}
			}
			time.Sleep(time.Duration(r.Intn(3)) * time.Millisecond)
		})
		// direct updates of the merge types (two callers: UpdateResource calls of one type can meet)
		for i := 0; i < 2; i++ {
			worker(func(r *rand.Rand) {
				n := names[r.Intn(len(names))]
				if r.Intn(2) == 0 {
					m.UpdateResource(xdsresource.RouteConfigType, map[string]xdsresource.Resource{n: stampedResource("rds", uint64(r.Intn(100)))}, "v")
				} else {
					m.UpdateResource(xdsresource.EndpointsType, map[string]xdsresource.Resource{n: stampedResource("eds", uint64(r.Intn(3)))}, "v")
				}
				atomic.AddInt64(&res.Updates, 1)
				time.Sleep(time.Duration(r.Intn(2)) * time.Millisecond)
			})
		}
		// registrations of the real consumers, dumps, tagged views
		worker(func(r *rand.Rand) {
			s := newSuitesImpl()
			s.register([]string{"cb", "retry", "limiter"}[r.Intn(3)], 80)
			atomic.AddInt64(&res.Registered, 1)
			_ = s.dump()
			time.Sleep(time.Duration(2+r.Intn(5)) * time.Millisecond)
		})
		worker(func(r *rand.Rand) {
			m.Dump()
			atomic.AddInt64(&res.Dumps, 1)
			for _, k := range kinds {
				m.VerifCacheNames(k.rt)
				m.VerifWatched(k.rt)
			}
			time.Sleep(time.Duration(3+r.Intn(5)) * time.Millisecond)
		})
		// probe handlers on the cluster type: each checks that its own invocations never overlap and never go
		// back in time (every cluster of a response names the response's version as its EDS service)
		worker(func(r *rand.Rand) {
			if atomic.LoadInt64(&res.Probes) >= 60 {
				time.Sleep(5 * time.Millisecond)
				return
			}
			var inFlight, calls int64
			pr := &probe{last: -1}
			probesMu.Lock()
			probes = append(probes, pr)
			probesMu.Unlock()
			m.RegisterXDSUpdateHandler(xdsresource.ClusterType, func(view map[string]xdsresource.Resource) {
				if atomic.AddInt64(&inFlight, 1) > 1 {
					atomic.AddInt64(&res.Overlap, 1)
				}
				defer atomic.AddInt64(&inFlight, -1)
				var v int64 = -1
				for _, x := range view {
					if cl, ok := x.(*xdsresource.ClusterResource); ok && cl != nil {
						var n int64
						if _, err := fmt.Sscanf(cl.EndpointName, "v%d", &n); err == nil && n > v {
							v = n
						}
					}
				}
				if v >= 0 {
					if prev := atomic.LoadInt64(&pr.last); v < prev {
						atomic.AddInt64(&res.Regress, 1)
					} else {
						atomic.StoreInt64(&pr.last, v)
					}
				}
				if atomic.AddInt64(&calls, 1) == 1 {
					time.Sleep(time.Millisecond) // handlers are user code and may be slow (here: the first run)
				}
			})
			atomic.StoreInt64(&pr.ready, 1)
			// and one on the route tables, updated by two callers at once: its invocations must still be serialised
			var inFlightR int64
			m.RegisterXDSUpdateHandler(xdsresource.RouteConfigType, func(view map[string]xdsresource.Resource) {
				if atomic.AddInt64(&inFlightR, 1) > 1 {
					atomic.AddInt64(&res.Overlap, 1)
				}
				time.Sleep(20 * time.Microsecond)
				atomic.AddInt64(&inFlightR, -1)
			})
			atomic.AddInt64(&res.Probes, 1)
			time.Sleep(time.Duration(5+r.Intn(15)) * time.Millisecond)
		})
		// stream failures
		worker(func(r *rand.Rand) {
			time.Sleep(time.Duration(20+r.Intn(40)) * time.Millisecond)
			if s := ads.stream(-1); s != nil {
				select {
				case s.recvCh <- recvItem{err: fmt.Errorf("fake: recv failed")}:
					atomic.AddInt64(&res.Reconnects, 1)
				default:
				}
			}
		})
		time.Sleep(time.Duration(c.Millis) * time.Millisecond)
		close(stop)
		fin := make(chan struct{})
		go func() { wg.Wait(); close(fin) }()
		select {
		case <-fin:
		case <-time.After(10 * time.Second):
			res.Unfinished = true
		}
		if !res.Unfinished {
			// the wire, once quiet: per stream and type the listed names never shrink (nothing is evicted here), and the last
			// request of every subscribed type on the live stream lists exactly the interest set
			// wait until the client is quiet: no reconnect in progress (the receiver is reading the newest stream and no
			// newer one appears) and everything queued has been sent on it
			var live *fakeStream
			quiet := false
			for dl := time.Now().Add(5 * time.Second); time.Now().Before(dl); {
				n := ads.numStreams()
				live = ads.stream(-1)
				if live == nil || !live.waitRecvEntered(1, time.Second) {
					continue
				}
				tag := fmt.Sprintf("stress-end-%d", n)
				if !m.VerifFlushMarker(tag) || !live.waitMarker(tag, time.Second) {
					continue
				}
				time.Sleep(20 * time.Millisecond)
				if ads.numStreams() == n && m.VerifPending() == 0 {
					quiet = true
					break
				}
			}
			for i := 0; i < ads.numStreams(); i++ {
				prev := map[string]map[string]bool{}
				first := map[string]bool{}
				for _, q := range ads.stream(i).sentCopy() {
					if i > 0 && !first[q.TypeUrl] {
						// the re-subscription the sender builds when it picks a new stream up is fresher than the requests
						// still queued behind it (built earlier, sent later): it is not part of the monotone sequence
						first[q.TypeUrl] = true
						continue
					}
					cur := map[string]bool{}
					for _, n := range q.ResourceNames {
						cur[n] = true
					}
					for n := range prev[q.TypeUrl] {
						if !cur[n] {
							atomic.AddInt64(&res.Shrinks, 1)
							break
						}
					}
					prev[q.TypeUrl] = cur
				}
			}
			res.Quiet = quiet
			if live != nil && quiet {
				lastOf := map[string][]string{}
				for _, q := range live.sentCopy() {
					lastOf[q.TypeUrl] = q.ResourceNames
				}
				for _, k := range kinds {
					want, sub := m.VerifWatched(k.rt)
					if !sub {
						continue
					}
					got, ok := lastOf[typeURLs[k.name]]
					if !ok || !sameSet(got, want) {
						atomic.AddInt64(&res.WireStale, 1)
					}
				}
			}
		}
		go m.Close()
		return res, nil
	}
}
