package main

import (
	"context"
	"encoding/json"
	"fmt"
	"os"
	"sort"
	"time"

	"github.com/cloudwego/kitex/pkg/remote/trans/nphttp2/codes"
	"github.com/cloudwego/kitex/pkg/remote/trans/nphttp2/status"
	v3core "github.com/envoyproxy/go-control-plane/envoy/config/core/v3"
	discoveryv3 "github.com/envoyproxy/go-control-plane/envoy/service/discovery/v3"
	"google.golang.org/protobuf/types/known/anypb"

	"github.com/kitex-contrib/xds/core/manager"
	"github.com/kitex-contrib/xds/core/xdsresource"
)

// engine "sys": the real manager + client around a scripted in-memory ADS client, one
// operation at a time with barriers; observations after every operation.
type sysOp struct {
	Op          string            `json:"op"` // resp | resp_unknown | lookup | lookup_unknown | recverr | senderr | resolve | register
	RT          string            `json:"rt"`
	Version     string            `json:"version"`
	Nonce       string            `json:"nonce"`
	Resources   []json.RawMessage `json:"resources"`
	Name        string            `json:"name"`
	Auth        bool              `json:"auth"`
	Wrapped     bool              `json:"wrapped"`
	NoWait      bool              `json:"nowait"`
	ConnectFail int               `json:"connectfail"`
	Names       []string          `json:"names"`
	Ms          int64             `json:"ms"`
	What        string            `json:"what"`
	Port        uint32            `json:"port"`
}

type sysCfg struct {
	NDS bool   `json:"nds"` // name table required (Istio mode)
	LDS bool   `json:"lds"` // inbound listener warm-up
	NS  string `json:"ns"`
	Dom string `json:"dom"`
}

type sysCase struct {
	ID      int     `json:"id"`
	Cfg     sysCfg  `json:"cfg"`
	InitNDS *sysOp  `json:"init_nds"`
	InitLDS *sysOp  `json:"init_lds"`
	Ops     []sysOp `json:"ops"`
}

type reqObs struct {
	Stream  int      `json:"stream"`
	Type    string   `json:"type"`
	Version string   `json:"version"`
	Nonce   string   `json:"nonce"`
	Names   []string `json:"names"`
	Error   bool     `json:"error"`
	NodeID  string   `json:"node_id"`
}

type stepObs struct {
	Reqs     []reqObs    `json:"reqs"`
	Lookup   interface{} `json:"lookup"` // nil | "miss" | tagged dump
	Summary  interface{} `json:"summary,omitempty"`
	ReValid  interface{} `json:"re_valid,omitempty"`
	Rates    interface{} `json:"rates,omitempty"`
	State    interface{} `json:"state"`
	Policy   interface{} `json:"policy,omitempty"`
	Note     string      `json:"note,omitempty"`
	AtMs     int64       `json:"at_ms"`
	Deferred bool        `json:"deferred"`
	Joined   string      `json:"joined,omitempty"` // join of a waiting lookup: "cached" | "absent" | "" (nothing was waiting)
	JoinRT   string      `json:"join_rt,omitempty"`
	JoinName string      `json:"join_name,omitempty"`
}

// a lookup that is waiting for its resource (a real Get with a deadline, started by lookup_async)
type asyncGet struct {
	rt    xdsresource.ResourceType
	rtKey string
	name  string
	ch    chan interface{}
}

type sysObs struct {
	ID    int       `json:"id"`
	Steps []stepObs `json:"steps"` // start-up steps first (subscribe nds, resp, subscribe lds, resp), then one per op
	Fatal string    `json:"fatal,omitempty"`
	hung  bool
}

var rtNames = map[string]xdsresource.ResourceType{
	"lds": xdsresource.ListenerType, "rds": xdsresource.RouteConfigType, "cds": xdsresource.ClusterType,
	"eds": xdsresource.EndpointsType, "nds": xdsresource.NameTableType,
}
var rtOrder = []string{"lds", "rds", "cds", "eds", "nds"}
var urlToRT = map[string]string{
	xdsresource.ListenerTypeURL: "lds", xdsresource.RouteTypeURL: "rds", xdsresource.ClusterTypeURL: "cds",
	xdsresource.EndpointTypeURL: "eds", xdsresource.NameTableTypeURL: "nds",
}

func init() { engines["sys"] = runSys }

type sysRun struct {
	m        *manager.VerifManager
	ads      *fakeADS
	seen     map[int]int // stream id -> number of requests already reported
	errArmed *fakeStream
	dead     bool
	markerN  int
	suites   *suites
	t0       time.Time
	blocked  *fakeStream // the stream whose Send is being held
	pending  *asyncGet   // the lookup that is waiting, if any
}

func (r *sysRun) curStream() *fakeStream { return r.ads.stream(-1) }

// flush waits until every request queued so far has been handed to the stream (or dropped).
func (r *sysRun) flush() error {
	if r.m.VerifClosed() {
		return nil
	}
	r.markerN++
	tag := fmt.Sprintf("m%d", r.markerN)
	deadline := time.Now().Add(5 * time.Second)
	for !r.m.VerifFlushMarker(tag) {
		// the queue is full: the sender is still draining it
		if time.Now().After(deadline) {
			return fmt.Errorf("queue stays full")
		}
		time.Sleep(200 * time.Microsecond)
	}
	for {
		for i := 0; i < r.ads.numStreams(); i++ {
			s := r.ads.stream(i)
			select {
			case m := <-s.markers:
				if m == tag {
					return nil
				}
			default:
			}
		}
		if r.errArmed != nil {
			r.errArmed.mu.Lock()
			consumed := r.errArmed.sendErrs == 0
			r.errArmed.mu.Unlock()
			if consumed {
				r.dead = true
				r.errArmed = nil
			}
		}
		if r.dead && r.m.VerifPending() == 0 {
			time.Sleep(200 * time.Microsecond)
			if r.m.VerifPending() == 0 {
				return nil
			}
		}
		if r.m.VerifClosed() {
			return nil
		}
		if time.Now().After(deadline) {
			return fmt.Errorf("flush barrier timed out (pending=%d)", r.m.VerifPending())
		}
		time.Sleep(50 * time.Microsecond)
	}
}

func (r *sysRun) newReqs() []reqObs {
	var out []reqObs
	for i := 0; i < r.ads.numStreams(); i++ {
		s := r.ads.stream(i)
		sent := s.sentCopy()
		for _, q := range sent[r.seen[i]:] {
			names := append([]string(nil), q.ResourceNames...)
			sort.Strings(names)
			if names == nil {
				names = []string{}
			}
			out = append(out, reqObs{Stream: i, Type: urlToRT[q.TypeUrl], Version: q.VersionInfo, Nonce: q.ResponseNonce,
				Names: names, Error: q.ErrorDetail != nil, NodeID: q.GetNode().GetId()})
		}
		r.seen[i] = len(sent)
	}
	if out == nil {
		out = []reqObs{}
	}
	return out
}

func (r *sysRun) state() interface{} {
	var cache, watched, vers, nonces []interface{}
	for _, k := range rtOrder[:4] {
		rt := rtNames[k]
		var kvs []interface{}
		for _, n := range r.m.VerifCacheNames(rt) {
			v, _ := r.m.VerifCachePeek(rt, n)
			kvs = append(kvs, P(n, dCVal(v)))
		}
		cache = append(cache, Lof(kvs))
	}
	for _, k := range rtOrder {
		rt := rtNames[k]
		names, sub := r.m.VerifWatched(rt)
		if !sub {
			watched = append(watched, nil)
		} else {
			var l []interface{}
			for _, n := range names {
				l = append(l, n)
			}
			watched = append(watched, Some(Lof(l)))
		}
		v, n := r.m.VerifVersionNonce(rt)
		vers = append(vers, v)
		nonces = append(nonces, n)
	}
	return C("Build_snap", Lof(cache), Lof(watched), Lof(vers), Lof(nonces), dTable(r.m.VerifTable()), r.m.VerifClosed())
}

func buildResp(op *sysOp) (*discoveryv3.DiscoveryResponse, interface{}, interface{}, interface{}, error) {
	ctx := newSummCtx()
	var anys []*anypb.Any
	var sum []interface{}
	for _, raw := range op.Resources {
		n, err := parseNode(raw)
		if err != nil {
			return nil, nil, nil, nil, err
		}
		a, err := buildRes(op.RT, n)
		if err != nil {
			return nil, nil, nil, nil, err
		}
		anys = append(anys, a)
		sum = append(sum, ctx.summarise(op.RT, a))
	}
	rv, rt := ctx.oracles()
	return &discoveryv3.DiscoveryResponse{VersionInfo: op.Version, Nonce: op.Nonce, TypeUrl: typeURLs[op.RT], Resources: anys}, Lof(sum), rv, rt, nil
}

// deliver pushes a response on the current stream and waits until it has been handled.
func (r *sysRun) deliver(resp *discoveryv3.DiscoveryResponse) error {
	s := r.curStream()
	if s == nil {
		return fmt.Errorf("no stream")
	}
	before := s.entered()
	s.recvCh <- recvItem{resp: resp}
	if r.m.VerifClosed() {
		return nil
	}
	if !s.waitRecvEntered(before+1, 5*time.Second) {
		if r.m.VerifClosed() {
			return nil
		}
		return fmt.Errorf("response not handled within 5s")
	}
	return nil
}

func (r *sysRun) snapshot(st *stepObs) error {
	if err := r.flush(); err != nil {
		return err
	}
	st.Reqs = r.newReqs()
	st.State = r.state()
	if r.suites != nil {
		st.Policy = r.suites.dump()
	}
	return nil
}

func runSys(raw json.RawMessage) (out interface{}, err error) {
	var c sysCase
	if err := json.Unmarshal(raw, &c); err != nil {
		return nil, err
	}
	o := &sysObs{ID: c.ID}
	defer func() {
		if e := recover(); e != nil {
			o.Fatal = fmt.Sprintf("harness panic: %v", e)
			out, err = o, nil
		}
	}()
	run := &sysRun{ads: newFakeADS(), seen: map[int]int{}}
	// start-up auto replies
	var initSteps [4]stepObs
	replied := map[string]bool{}
	run.ads.autoReply = func(s *fakeStream, req *discoveryv3.DiscoveryRequest) {
		k := urlToRT[req.TypeUrl]
		var op *sysOp
		if k == "nds" && c.Cfg.NDS {
			op = c.InitNDS
		}
		if k == "lds" && c.Cfg.LDS {
			op = c.InitLDS
		}
		if op == nil || replied[k] {
			return
		}
		replied[k] = true
		resp, sum, rv, rt, err := buildResp(op)
		if err != nil {
			return
		}
		idx := 1
		if k == "lds" {
			idx = 3
		}
		initSteps[idx].Summary, initSteps[idx].ReValid, initSteps[idx].Rates = sum, rv, rt
		s.recvCh <- recvItem{resp: resp}
	}
	cfg := manager.VerifBootstrap(c.Cfg.NS, c.Cfg.Dom, &v3core.Node{Id: "node-" + c.Cfg.NS}, &manager.XDSServerConfig{
		SvrAddr: "fake", SvrName: "fake", NDSNotRequired: !c.Cfg.NDS, LDSNotRequired: !c.Cfg.LDS, FetchXDSTimeout: time.Hour,
	})
	done := make(chan error, 1)
	run.t0 = time.Now()
	go func() {
		m, err := manager.VerifNewManager(cfg, run.ads, true, manager.Option{F: func(o *manager.Options) { o.DumpPath = os.DevNull }})
		run.m = m
		done <- err
	}()
	select {
	case err := <-done:
		if err != nil {
			return nil, err
		}
	case <-time.After(10 * time.Second):
		o.Fatal = "constructor did not return (warm-up stuck)"
		return o, nil
	}
	defer func() {
		if !o.hung {
			run.m.Close()
		}
	}()
	run.ads.autoReply = nil
	// wait until the warm-up responses are fully handled (receiver back in Recv)
	want := 1
	if c.Cfg.NDS {
		want++
	}
	if c.Cfg.LDS {
		want++
	}
	if !run.ads.stream(0).waitRecvEntered(want, 5*time.Second) {
		o.Fatal = "warm-up responses not handled"
		return o, nil
	}
	if err := run.flush(); err != nil {
		o.Fatal = err.Error()
		return o, nil
	}
	// start-up observations: all requests so far are attributed to the last start-up step
	// (the orchestrator compares the concatenation for the start-up prefix)
	all := run.newReqs()
	if c.Cfg.NDS {
		o.Steps = append(o.Steps, stepObs{Reqs: []reqObs{}, Note: "subscribe nds"}, initSteps[1])
	}
	if c.Cfg.LDS {
		o.Steps = append(o.Steps, stepObs{Reqs: []reqObs{}, Note: "subscribe lds"}, initSteps[3])
	}
	if len(o.Steps) > 0 {
		last := &o.Steps[len(o.Steps)-1]
		last.Reqs = all
		last.State = run.state()
		last.Note = "startup: requests of the whole warm-up are listed here"
	}
	cancelled, cancel := context.WithCancel(context.Background())
	cancel()
	for i := range c.Ops {
		op := &c.Ops[i]
		st := stepObs{}
		switch op.Op {
		case "resp":
			resp, sum, rv, rt, err := buildResp(op)
			if err != nil {
				return nil, err
			}
			st.Summary, st.ReValid, st.Rates = sum, rv, rt
			if err := run.deliver(resp); err != nil {
				o.Fatal = fmt.Sprintf("op %d: %v", i, err)
				return o, nil
			}
		case "resp_unknown":
			if err := run.deliver(&discoveryv3.DiscoveryResponse{VersionInfo: "x", Nonce: "x", TypeUrl: "type.googleapis.com/envoy.service.runtime.v3.Runtime"}); err != nil {
				o.Fatal = fmt.Sprintf("op %d: %v", i, err)
				return o, nil
			}
		case "lookup":
			res, err := getSafely(run.m, cancelled, rtNames[op.RT], op.Name)
			st.Lookup = res
			if err != nil {
				st.Note = err.Error()
			}
		case "lookups":
			var last interface{} = C("LMiss")
			for _, n := range op.Names {
				res, _ := getSafely(run.m, cancelled, rtNames[op.RT], n)
				last = res
				if r, ok := res.([]interface{}); ok && (r[0] == "LHang" || r[0] == "LPanic") {
					break
				}
			}
			st.Lookup = last
		case "lookup_unknown":
			res, err := getSafely(run.m, cancelled, unknownKinds[(c.ID+i)%len(unknownKinds)], "x")
			st.Lookup = res
			if err != nil {
				st.Note = err.Error()
			}
		case "recverr":
			s := run.curStream()
			nBefore := run.ads.numStreams()
			run.ads.mu.Lock()
			run.ads.failCreate = op.ConnectFail
			run.ads.mu.Unlock()
			if op.Auth {
				var aerr error = status.Err(codes.Unauthenticated, "rejected")
				if op.Wrapped {
					aerr = fmt.Errorf("transport: %w", aerr)
				}
				s.recvCh <- recvItem{err: aerr}
				ok := false
				for dl := time.Now().Add(5 * time.Second); !ok && time.Now().Before(dl); {
					ok = run.m.VerifClosed()
					if !ok {
						time.Sleep(100 * time.Microsecond)
					}
				}
				if !ok && !run.dead {
					st.Note = "client not closed after auth error"
				}
			} else {
				wasClosed := run.m.VerifClosed()
				s.recvCh <- recvItem{err: fmt.Errorf("stream broken")}
				if op.NoWait {
					// the sender is held in a Send: only wait until the receiver has created the next stream
					for dl := time.Now().Add(5 * time.Second); run.ads.numStreams() <= nBefore && time.Now().Before(dl); {
						time.Sleep(100 * time.Microsecond)
					}
					time.Sleep(2 * time.Millisecond)
				} else if !wasClosed {
					// new stream created, receiver reading it, sender has re-requested every subscribed type
					ok := false
					nsub := 0
					for _, k := range rtOrder {
						if _, sub := run.m.VerifWatched(rtNames[k]); sub {
							nsub++
						}
					}
					for dl := time.Now().Add(5 * time.Second); !ok && time.Now().Before(dl); {
						if run.ads.numStreams() > nBefore {
							ns := run.curStream()
							ok = ns.entered() >= 1 && len(ns.sentCopy()) >= nsub
						}
						if !ok {
							time.Sleep(100 * time.Microsecond)
						}
					}
					if !ok {
						o.Fatal = fmt.Sprintf("op %d: reconnect not completed", i)
						return o, nil
					}
					run.dead = false
					run.errArmed = nil
				}
			}
		case "senderr":
			if s := run.curStream(); s != nil && !run.dead && !run.m.VerifClosed() {
				s.mu.Lock()
				s.sendErrs = 1
				s.mu.Unlock()
				run.errArmed = s
			}
		case "block_send":
			if cs := run.curStream(); cs != nil {
				cs.mu.Lock()
				cs.sendBlock = make(chan struct{})
				cs.mu.Unlock()
				run.blocked = cs
			}
		case "unblock_send", "burst_unblock":
			var burstDone chan struct{}
			if op.Op == "burst_unblock" {
				burstDone = make(chan struct{})
				go func() {
					defer close(burstDone)
					for _, n := range op.Names {
						_, _ = getSafely0(run.m, cancelled, rtNames[op.RT], n)
					}
				}()
				time.Sleep(150 * time.Millisecond) // let the queue fill up behind the held Send
			}
			if b := run.blocked; b != nil {
				b.mu.Lock()
				ch := b.sendBlock
				b.sendBlock = nil
				b.mu.Unlock()
				close(ch)
				run.blocked = nil
			}
			if burstDone != nil {
				select {
				case <-burstDone:
					st.Lookup = C("LMiss")
				case <-time.After(10 * time.Second):
					o.Fatal = fmt.Sprintf("op %d: burst of lookups did not finish after the sender was released", i)
					o.hung = true
					return o, nil
				}
			}
			// settle: the sender has switched to the newest stream and re-requested every subscribed type on it
			nsub := 0
			for _, k := range rtOrder {
				if _, sub := run.m.VerifWatched(rtNames[k]); sub {
					nsub++
				}
			}
			if run.ads.numStreams() > 1 {
				for dl := time.Now().Add(3 * time.Second); time.Now().Before(dl); {
					if ns := run.curStream(); len(ns.sentCopy()) >= nsub && ns.entered() >= 1 {
						break
					}
					time.Sleep(200 * time.Microsecond)
				}
			}
		case "backdate":
			if !run.m.VerifBackdate(rtNames[op.RT], op.Name, time.Duration(op.Ms)*time.Millisecond) {
				st.Note = "no recorded access time to shift"
			}
		case "sleep_until":
			if d := time.Until(run.t0.Add(time.Duration(op.Ms) * time.Millisecond)); d > 0 {
				time.Sleep(d)
			}
		case "await_sweep":
			// the cleaner ticks every 30s from its start (just after t0): wait for the op.Ms-th tick plus a margin
			if d := time.Until(run.t0.Add(time.Duration(op.Ms)*30*time.Second + 1500*time.Millisecond)); d > 0 {
				time.Sleep(d)
			}
		case "register":
			if run.suites == nil {
				run.suites = newSuites(run.m)
			}
			run.suites.register(op.What, op.Port)
		case "resolve":
			st.Lookup = run.resolve(cancelled, op.Name)
		case "lookup_async":
			// a lookup that WAITS: a real Get with a deadline of op.Ms.  When the name is cached (or the client is closed, or
			// another lookup is already waiting) it is an ordinary lookup; otherwise the step ends once the notifier is registered
			// (the subscription is then queued: both happen in one critical section of Get) and is observed as a miss; the
			// caller's result is observed by the next "join".
			rt := rtNames[op.RT]
			_, cached := run.m.VerifCachePeek(rt, op.Name)
			if cached || run.m.VerifClosed() || run.pending != nil {
				res, err := getSafely(run.m, cancelled, rt, op.Name)
				st.Lookup = res
				if err != nil {
					st.Note = err.Error()
				}
				break
			}
			ag := &asyncGet{rt: rt, rtKey: op.RT, name: op.Name, ch: make(chan interface{}, 1)}
			ms := op.Ms
			if ms <= 0 {
				ms = 1500
			}
			go func() {
				ctx, cancelW := context.WithTimeout(context.Background(), time.Duration(ms)*time.Millisecond)
				defer cancelW()
				res, _ := getSafely0(run.m, ctx, rt, op.Name)
				ag.ch <- res
			}()
			registered := false
			for dl := time.Now().Add(3 * time.Second); !registered && time.Now().Before(dl); {
				for _, n := range run.m.VerifNotifierNames(rt) {
					if n == op.Name {
						registered = true
					}
				}
				if !registered {
					select {
					case res := <-ag.ch: // returned at once (a hit after all, or an error)
						ag.ch <- res
						registered = true
					default:
						time.Sleep(100 * time.Microsecond)
					}
				}
			}
			run.pending = ag
			st.Lookup = C("LMiss")
		case "join":
			// the waiting lookup returns: with the resource if it is cached by now (it was woken, or reads it when its deadline
			// passes), with an error otherwise.  Joined tells the model side which of the two the cache says it must be.
			if ag := run.pending; ag != nil {
				run.pending = nil
				st.JoinRT, st.JoinName = ag.rtKey, ag.name
				var res interface{}
				select {
				case res = <-ag.ch:
				case <-time.After(6 * time.Second):
					res = C("LHang")
				}
				if _, cached := run.m.VerifCachePeek(ag.rt, ag.name); cached {
					st.Joined = "cached"
					st.Lookup = res
				} else {
					st.Joined = "absent"
					if l, ok := res.([]interface{}); !(ok && len(l) > 0 && l[0] == "LMiss") {
						st.Lookup = res // anything but an error is wrong here
					}
				}
			}
		case "dump":
			// the public Dump renders the whole cache; an observation, nothing may change
			run.m.Dump()
		default:
			return nil, fmt.Errorf("unknown op %s", op.Op)
		}
		if l, ok := st.Lookup.([]interface{}); ok && len(l) > 0 && l[0] == "LHang" {
			// the hung lookup may hold the manager's locks: do not touch the manager again
			o.Fatal = fmt.Sprintf("op %d (%s): lookup did not return within 3s", i, op.Op)
			st.Reqs = []reqObs{}
			o.Steps = append(o.Steps, st)
			o.hung = true
			return o, nil
		}
		if run.blocked != nil {
			st.Deferred = true
			st.Reqs = run.newReqs()
			st.State = run.state()
			if run.suites != nil {
				st.Policy = run.suites.dump()
			}
		} else if err := run.snapshot(&st); err != nil {
			o.Fatal = fmt.Sprintf("op %d (%s): %v", i, op.Op, err)
			return o, nil
		}
		st.AtMs = time.Since(run.t0).Milliseconds()
		o.Steps = append(o.Steps, st)
	}
	return o, nil
}

// getSafely runs a lookup under a watchdog: a lookup that has not returned after 3s is reported as LHang.
func getSafely(m *manager.VerifManager, ctx context.Context, rt xdsresource.ResourceType, name string) (interface{}, error) {
	type ret struct {
		v interface{}
		e error
	}
	ch := make(chan ret, 1)
	go func() {
		v, e := getSafely0(m, ctx, rt, name)
		ch <- ret{v, e}
	}()
	select {
	case r := <-ch:
		return r.v, r.e
	case <-time.After(3 * time.Second):
		return C("LHang"), fmt.Errorf("lookup did not return within 3s")
	}
}

func getSafely0(m *manager.VerifManager, ctx context.Context, rt xdsresource.ResourceType, name string) (res interface{}, err error) {
	defer func() {
		if e := recover(); e != nil {
			res, err = C("LPanic"), fmt.Errorf("panic: %v", e)
		}
	}()
	v, e := m.Get(ctx, rt, name)
	if e != nil {
		if v != nil {
			return C("LBoth"), e
		}
		return C("LMiss"), nil
	}
	switch x := v.(type) {
	case nil:
		return C("LNil"), nil
	case *xdsresource.ListenerResource:
		if x == nil {
			return C("LNil"), nil
		}
		return C("LHit", C("VLis", dResource(x))), nil
	case *xdsresource.RouteConfigResource:
		if x == nil {
			return C("LNil"), nil
		}
		return C("LHit", C("VRc", dResource(x))), nil
	case *xdsresource.ClusterResource:
		if x == nil {
			return C("LNil"), nil
		}
		return C("LHit", C("VCl", dResource(x))), nil
	case *xdsresource.EndpointsResource:
		return C("LHit", C("VEp", dResource(x))), nil
	}
	return C("LOther"), nil
}

// dCVal dumps a cached value as a Coq cval; nil placeholders (nil interface or typed-nil pointers of the
// kinds that are never legitimately nil) become VNil.
func dCVal(v interface{}) interface{} {
	switch x := v.(type) {
	case *xdsresource.ListenerResource:
		if x != nil {
			return C("VLis", dResource(x))
		}
	case *xdsresource.RouteConfigResource:
		if x != nil {
			return C("VRc", dResource(x))
		}
	case *xdsresource.ClusterResource:
		if x != nil {
			return C("VCl", dResource(x))
		}
	case *xdsresource.EndpointsResource:
		return C("VEp", dResource(x))
	}
	return C("VNil")
}

// engine "sweep" (C19): a batch of scenarios run in parallel, each on its own manager, so that one
// real 30s tick of the cleaners serves all of them.
type sweepCase struct {
	ID        int               `json:"id"`
	Scenarios []json.RawMessage `json:"scenarios"`
}

func init() {
	engines["sweep"] = func(raw json.RawMessage) (interface{}, error) {
		var c sweepCase
		if err := json.Unmarshal(raw, &c); err != nil {
			return nil, err
		}
		// a manager that was created first and is closed before the others start: nothing the others need (clocks, tickers,
		// process-wide state) may have gone with it
		preCfg := manager.VerifBootstrap("default", "cluster.local", &v3core.Node{Id: "node-first"}, &manager.XDSServerConfig{
			SvrAddr: "fake", SvrName: "fake", NDSNotRequired: true, LDSNotRequired: true, FetchXDSTimeout: time.Second,
		})
		if pre, err := manager.VerifNewManager(preCfg, newFakeADS(), true, manager.Option{F: func(o *manager.Options) { o.DumpPath = os.DevNull }}); err == nil {
			time.Sleep(300 * time.Millisecond)
			pre.Close()
			time.Sleep(50 * time.Millisecond)
		}
		results := make([]interface{}, len(c.Scenarios))
		done := make(chan int, len(c.Scenarios))
		for i := range c.Scenarios {
			go func(i int) {
				defer func() { done <- i }()
				o, err := runSys(c.Scenarios[i])
				if err != nil {
					results[i] = map[string]interface{}{"fatal": err.Error()}
					return
				}
				results[i] = o
			}(i)
		}
		for range c.Scenarios {
			<-done
		}
		return map[string]interface{}{"id": c.ID, "results": results}, nil
	}
}
