package main

import (
	"context"
	"fmt"
	"sync"

	"github.com/kitex-contrib/xds/core/xdsresource"
	"github.com/kitex-contrib/xds/xdssuite"
)

// proxyManager is installed once as the xdssuite singleton; its target is swapped per case.
type proxyManager struct {
	mu     sync.RWMutex
	target xdssuite.XDSResourceManager
}

func (p *proxyManager) get() xdssuite.XDSResourceManager {
	p.mu.RLock()
	defer p.mu.RUnlock()
	return p.target
}

func (p *proxyManager) Get(ctx context.Context, rt xdsresource.ResourceType, name string) (interface{}, error) {
	t := p.get()
	if t == nil {
		return nil, fmt.Errorf("proxy: no target")
	}
	return t.Get(ctx, rt, name)
}

func (p *proxyManager) RegisterXDSUpdateHandler(rt xdsresource.ResourceType, h xdsresource.XDSUpdateHandler) {
	if t := p.get(); t != nil {
		t.RegisterXDSUpdateHandler(rt, h)
	}
}

var (
	proxy     = &proxyManager{}
	proxyOnce sync.Once
)

func setTarget(t xdssuite.XDSResourceManager) {
	proxyOnce.Do(func() {
		if err := xdssuite.SetXDSResourceManager(proxy); err != nil {
			panic(err)
		}
	})
	proxy.mu.Lock()
	proxy.target = t
	proxy.mu.Unlock()
}

// fakeManager serves a fixed table of lookup results.
type getResult struct {
	val interface{}
	err error
}

type fakeManager struct {
	mu       sync.Mutex
	res      map[xdsresource.ResourceType]map[string]getResult
	calls    []string
	handlers map[xdsresource.ResourceType][]xdsresource.XDSUpdateHandler
}

func newFakeManager() *fakeManager {
	return &fakeManager{
		res:      map[xdsresource.ResourceType]map[string]getResult{},
		handlers: map[xdsresource.ResourceType][]xdsresource.XDSUpdateHandler{},
	}
}

func (f *fakeManager) set(rt xdsresource.ResourceType, name string, v interface{}, err error) {
	if f.res[rt] == nil {
		f.res[rt] = map[string]getResult{}
	}
	f.res[rt][name] = getResult{v, err}
}

func (f *fakeManager) Get(ctx context.Context, rt xdsresource.ResourceType, name string) (interface{}, error) {
	f.mu.Lock()
	defer f.mu.Unlock()
	f.calls = append(f.calls, fmt.Sprintf("%d/%s", rt, name))
	if r, ok := f.res[rt][name]; ok {
		return r.val, r.err
	}
	return nil, fmt.Errorf("fake: %d/%s not found", rt, name)
}

func (f *fakeManager) RegisterXDSUpdateHandler(rt xdsresource.ResourceType, h xdsresource.XDSUpdateHandler) {
	f.mu.Lock()
	defer f.mu.Unlock()
	f.handlers[rt] = append(f.handlers[rt], h)
}

// snapshot / clear / fire: state-of-the-world pushes on the fake manager (update handlers registered by the code under
// test are run with the map of the resources of the type that exist, errors excluded)
func (f *fakeManager) snapshot(rt xdsresource.ResourceType) map[string]getResult {
	f.mu.Lock()
	defer f.mu.Unlock()
	out := map[string]getResult{}
	for k, v := range f.res[rt] {
		out[k] = v
	}
	return out
}

func (f *fakeManager) clear(rt xdsresource.ResourceType) {
	f.mu.Lock()
	defer f.mu.Unlock()
	delete(f.res, rt)
}

func (f *fakeManager) fire(rt xdsresource.ResourceType) {
	f.mu.Lock()
	view := map[string]xdsresource.Resource{}
	for k, v := range f.res[rt] {
		if r, ok := v.val.(xdsresource.Resource); ok && v.err == nil && r != nil {
			view[k] = r
		}
	}
	hs := append([]xdsresource.XDSUpdateHandler(nil), f.handlers[rt]...)
	f.mu.Unlock()
	for _, h := range hs {
		h(view)
	}
}
