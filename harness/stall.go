package main

import (
	"context"
	"encoding/json"
	"fmt"
	"sync"
	"sync/atomic"
	"time"

	v3core "github.com/envoyproxy/go-control-plane/envoy/config/core/v3"

	"github.com/kitex-contrib/xds/core/manager"
	"github.com/kitex-contrib/xds/core/xdsresource"
)

// engine "stall" (C07, deadlock part): the sender is held inside a Send (back-pressure of the
// control plane), optionally the stream then fails and a new one is opened, and `pending`
// lookups of distinct missing names pile subscription requests up.  Then the Send is let go.
// Observed: do all lookups return, and is a cached name served again afterwards?
type stallItem struct {
	Pending int  `json:"pending"`
	RecvErr bool `json:"recv_err"`
	Trials  int  `json:"trials"`
	// ResubFail: no held Send; instead the stream fails, the FIRST Send on the new stream (the re-subscription) fails, that
	// stream fails too, and the next one works; then the lookups are made
	ResubFail bool `json:"resub_fail"`
}

type stallCase struct {
	ID    int         `json:"id"`
	Items []stallItem `json:"items"`
}

type stallRes struct {
	QueueMax     int    `json:"queue_max"`     // largest queue length seen while the sender was held
	HotDuring    string `json:"hot_during"`    // lookup of a cached name while the sender is held: val | err | hang
	Returned     int    `json:"returned"`      // lookups that had returned 5 s after the Send was let go
	Stuck        int    `json:"stuck"`         // lookups that had not
	HotAfter     string `json:"hot_after"`     // lookup of the cached name after that: val | err | hang
	Streams      int    `json:"streams"`       // streams opened
	ResubOnNew   bool   `json:"resub_on_new"`  // the new stream received a request (when one was opened)
	TrialsFailed int    `json:"trials_failed"` // of Trials repetitions, how many ended with stuck lookups or a hanging cached lookup
}

func stallOnce(it stallItem) stallRes {
	var res stallRes
	ads := newFakeADS()
	cfg := manager.VerifBootstrap("default", "cluster.local", &v3core.Node{Id: "stall"}, &manager.XDSServerConfig{
		SvrAddr: "fake", SvrName: "fake", NDSNotRequired: true, LDSNotRequired: true, FetchXDSTimeout: 40 * time.Millisecond,
	})
	m, err := manager.VerifNewManager(cfg, ads, true)
	if err != nil {
		res.HotAfter = "bad"
		return res
	}
	m.UpdateResource(xdsresource.ClusterType, map[string]xdsresource.Resource{"hot": stampedResource("cds", 7)}, "v1")
	st := ads.stream(0)
	if st == nil {
		res.HotAfter = "bad"
		return res
	}
	blk := make(chan struct{})
	if !it.ResubFail {
		st.mu.Lock()
		st.sendBlock = blk
		st.mu.Unlock()
	}

	hot := func(wait time.Duration) string {
		done := make(chan getRet, 1)
		go func() {
			var r getRet
			defer func() {
				if e := recover(); e != nil {
					r.pan = "panic"
				}
				done <- r
			}()
			ctx, cancel := context.WithTimeout(context.Background(), 200*time.Millisecond)
			defer cancel()
			r.v, r.err = m.Get(ctx, xdsresource.ClusterType, "hot")
		}()
		select {
		case r := <-done:
			k, _ := classify("cds", &r)
			return k
		case <-time.After(wait):
			return "hang"
		}
	}
	var returned int64
	var wg sync.WaitGroup
	miss := func(name string) {
		wg.Add(1)
		go func() {
			defer wg.Done()
			defer func() { recover() }()
			ctx, cancel := context.WithTimeout(context.Background(), 30*time.Millisecond)
			defer cancel()
			m.Get(ctx, xdsresource.ClusterType, name)
			atomic.AddInt64(&returned, 1)
		}()
	}
	// one request for the sender to get held on
	miss("first")
	// wait until the sender has taken it out of the queue (and is now held inside Send)
	for dl := time.Now().Add(3 * time.Second); m.VerifPending() > 0 && time.Now().Before(dl); {
		time.Sleep(time.Millisecond)
	}
	time.Sleep(20 * time.Millisecond)
	if it.ResubFail {
		ads.mu.Lock()
		ads.failFirst = 1
		ads.mu.Unlock()
		st.recvCh <- recvItem{err: fmt.Errorf("fake: recv failed")}
		dl := time.Now().Add(2 * time.Second)
		for ads.numStreams() < 2 && time.Now().Before(dl) {
			time.Sleep(time.Millisecond)
		}
		if s1 := ads.stream(1); s1 != nil {
			// the re-subscription's Send fails; a stream whose Send failed fails its Recv too
			for dl := time.Now().Add(2 * time.Second); time.Now().Before(dl); {
				s1.mu.Lock()
				used := s1.sendErrs == 0
				s1.mu.Unlock()
				if used {
					break
				}
				time.Sleep(time.Millisecond)
			}
			time.Sleep(5 * time.Millisecond)
			s1.recvCh <- recvItem{err: fmt.Errorf("fake: recv failed")}
			// the receiver may be stuck (that is what this scenario is about): bounded wait
			for dl := time.Now().Add(1 * time.Second); ads.numStreams() < 3 && time.Now().Before(dl); {
				time.Sleep(time.Millisecond)
			}
			time.Sleep(10 * time.Millisecond)
		}
	}
	if it.RecvErr {
		st.recvCh <- recvItem{err: fmt.Errorf("fake: recv failed")}
		dl := time.Now().Add(2 * time.Second)
		for ads.numStreams() < 2 && time.Now().Before(dl) {
			time.Sleep(time.Millisecond)
		}
		time.Sleep(10 * time.Millisecond)
	}
	for i := 0; i < it.Pending; i++ {
		miss(fmt.Sprintf("miss-%d", i))
	}
	// let the queue fill up (or every producer finish)
	dl := time.Now().Add(4 * time.Second)
	stable, last := 0, -1
	for time.Now().Before(dl) && stable < 40 {
		q := m.VerifPending()
		if q > res.QueueMax {
			res.QueueMax = q
		}
		if q == last {
			stable++
		} else {
			stable, last = 0, q
		}
		time.Sleep(5 * time.Millisecond)
	}
	res.HotDuring = hot(700 * time.Millisecond)
	// let the held Send go
	if !it.ResubFail {
		st.mu.Lock()
		st.sendBlock = nil
		st.mu.Unlock()
	}
	close(blk)
	fin := make(chan struct{})
	go func() { wg.Wait(); close(fin) }()
	select {
	case <-fin:
	case <-time.After(5 * time.Second):
	}
	res.Returned = int(atomic.LoadInt64(&returned))
	res.Stuck = it.Pending + 1 - res.Returned
	res.HotAfter = hot(2 * time.Second)
	res.Streams = ads.numStreams()
	if it.ResubFail {
		if s3 := ads.stream(2); s3 != nil {
			dl := time.Now().Add(2 * time.Second)
			for len(s3.sentCopy()) == 0 && time.Now().Before(dl) {
				time.Sleep(time.Millisecond)
			}
			res.ResubOnNew = len(s3.sentCopy()) > 0
		}
	} else if s2 := ads.stream(1); s2 != nil {
		dl := time.Now().Add(2 * time.Second)
		for len(s2.sentCopy()) == 0 && time.Now().Before(dl) {
			time.Sleep(time.Millisecond)
		}
		res.ResubOnNew = len(s2.sentCopy()) > 0
	}
	go m.Close() // may never return when the client is deadlocked
	return res
}

func init() {
	engines["stall"] = func(raw json.RawMessage) (interface{}, error) {
		var c stallCase
		if err := json.Unmarshal(raw, &c); err != nil {
			return nil, err
		}
		out := make([]stallRes, len(c.Items))
		for i, it := range c.Items {
			n := it.Trials
			if n < 1 {
				n = 1
			}
			var worst stallRes
			failed := 0
			for t := 0; t < n; t++ {
				r := stallOnce(it)
				bad := r.Stuck > 0 || r.HotAfter != "val"
				if bad {
					failed++
				}
				if t == 0 || (bad && worst.Stuck == 0 && worst.HotAfter == "val") {
					worst = r
				}
			}
			worst.TrialsFailed = failed
			out[i] = worst
		}
		return map[string]interface{}{"id": c.ID, "results": out}, nil
	}
}
