package main

// decoded xdsresource structs -> tagged JSON terms of the Coq types in Model/Decode.v

import (
	"encoding/json"
	"math"
	"reflect"
	"regexp"
	"sort"
	"unsafe"

	"github.com/kitex-contrib/xds/core/xdsresource"
)

func regexSource(m *xdsresource.RegexMatcher) string {
	v := reflect.ValueOf(m).Elem().FieldByName("re")
	re := *(**regexp.Regexp)(unsafe.Pointer(v.UnsafeAddr()))
	if re == nil {
		return ""
	}
	return re.String()
}

func dMatchers(ms xdsresource.Matchers) interface{} {
	keys := make([]string, 0, len(ms))
	for k := range ms {
		keys = append(keys, k)
	}
	sort.Strings(keys)
	var out []interface{}
	for _, k := range keys {
		switch m := ms[k].(type) {
		case xdsresource.ExactMatcher:
			out = append(out, P(k, C("MExact", string(m))))
		case xdsresource.PrefixMatcher:
			out = append(out, P(k, C("MPrefix", string(m))))
		case *xdsresource.RegexMatcher:
			out = append(out, P(k, C("MRegex", regexSource(m))))
		default:
			out = append(out, P(k, C("MUnknown")))
		}
	}
	return Lof(out)
}

func dRoute(r *xdsresource.Route) interface{} {
	var m interface{}
	switch x := r.Match.(type) {
	case *xdsresource.HTTPRouteMatch:
		m = C("HttpMatch", x.Path, x.Prefix, dMatchers(x.Headers))
	case *xdsresource.ThriftRouteMatch:
		m = C("ThriftMatch", x.Method, x.ServiceName, dMatchers(x.Tags))
	default:
		m = C("NoMatch")
	}
	var cs []interface{}
	for _, c := range r.WeightedClusters {
		cs = append(cs, P(c.Name, uint64(c.Weight)))
	}
	rp := r.RetryPolicy
	var bo interface{}
	if rp.RetryBackOff != nil {
		bo = Some(P(Zv(int64(rp.RetryBackOff.BaseInterval)), Zv(int64(rp.RetryBackOff.MaxInterval))))
	}
	var ms []interface{}
	for _, x := range rp.Methods {
		ms = append(ms, x)
	}
	retry := C("Build_retry", rp.RetryOn, uint64(rp.NumRetries), Zv(int64(rp.PerTryTimeout)), Zv(int64(rp.PerTryIdleTimeout)),
		math.Float64bits(rp.CBErrorRate), bo, Lof(ms))
	return C("Build_route", m, Lof(cs), Zv(int64(r.Timeout)), retry)
}

func dRoutes(rs []*xdsresource.Route) interface{} {
	var out []interface{}
	for _, r := range rs {
		out = append(out, dRoute(r))
	}
	return Lof(out)
}

func dRC(rc *xdsresource.RouteConfigResource) interface{} {
	var http, thrift interface{}
	if rc.HTTPRouteConfig != nil {
		var vhs []interface{}
		for _, v := range rc.HTTPRouteConfig.VirtualHosts {
			vhs = append(vhs, P(v.Name, dRoutes(v.Routes)))
		}
		http = Some(Lof(vhs))
	}
	if rc.ThriftRouteConfig != nil {
		thrift = Some(dRoutes(rc.ThriftRouteConfig.Routes))
	}
	return C("Build_rcres", http, thrift, uint64(rc.MaxTokens), uint64(rc.TokensPerFill))
}

func dListener(l *xdsresource.ListenerResource) interface{} {
	var nfs []interface{}
	for _, f := range l.NetworkFilters {
		var inl interface{}
		if f.InlineRouteConfig != nil {
			inl = Some(dRC(f.InlineRouteConfig))
		}
		nfs = append(nfs, C("Build_nfres", f.FilterType == xdsresource.NetworkFilterTypeThrift, f.RouteConfigName, uint64(f.RoutePort), inl))
	}
	return Lof(nfs)
}

// observeJSON renders decoded resources the way Dump does (json.Marshal) for every second case: rendering is an
// observation and must leave what it renders unchanged, so whatever is read or used afterwards is compared as usual.
func observeJSON(id int, v interface{}) {
	if id%2 == 1 {
		_, _ = json.Marshal(v)
	}
}

func dEndpoints(e *xdsresource.EndpointsResource) interface{} {
	if e == nil {
		return nil
	}
	var locs []interface{}
	for _, l := range e.Localities {
		var eps []interface{}
		for _, ep := range l.Endpoints {
			if ep == nil {
				// observation-only value: no model produces it, so a decoder that leaves a hole in the list disagrees
				eps = append(eps, P("<nil endpoint>", uint64(0)))
				continue
			}
			eps = append(eps, P(ep.Addr().String(), uint64(ep.Weight())))
		}
		locs = append(locs, Lof(eps))
	}
	return Some(Lof(locs))
}

func dCluster(c *xdsresource.ClusterResource) interface{} {
	var od interface{}
	if c.OutlierDetection != nil {
		od = Some(P(uint64(c.OutlierDetection.FailurePercentageThreshold), uint64(c.OutlierDetection.FailurePercentageRequestVolume)))
	}
	return C("Build_clres", uint64(c.DiscoveryType), uint64(c.LbPolicy), c.EndpointName, dEndpoints(c.InlineEndpoints), od)
}

// dResource dumps any cached resource value by its dynamic type.
func dResource(r interface{}) interface{} {
	switch x := r.(type) {
	case *xdsresource.ListenerResource:
		if x == nil {
			return C("NilListener")
		}
		return dListener(x)
	case *xdsresource.RouteConfigResource:
		if x == nil {
			return C("NilRouteConfig")
		}
		return dRC(x)
	case *xdsresource.ClusterResource:
		if x == nil {
			return C("NilCluster")
		}
		return dCluster(x)
	case *xdsresource.EndpointsResource:
		return dEndpoints(x)
	}
	return C("UnknownResource")
}

func dMap(m map[string]xdsresource.Resource) interface{} {
	keys := make([]string, 0, len(m))
	for k := range m {
		keys = append(keys, k)
	}
	sort.Strings(keys)
	var out []interface{}
	for _, k := range keys {
		out = append(out, P(k, dResource(m[k])))
	}
	return Lof(out)
}

func dTable(t map[string][]string) interface{} {
	keys := make([]string, 0, len(t))
	for k := range t {
		keys = append(keys, k)
	}
	sort.Strings(keys)
	var out []interface{}
	for _, k := range keys {
		var ips []interface{}
		for _, ip := range t[k] {
			ips = append(ips, ip)
		}
		out = append(out, P(k, Lof(ips)))
	}
	return Lof(out)
}
