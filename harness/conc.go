package main

import (
	"context"
	"encoding/json"
	"fmt"
	"time"

	v3core "github.com/envoyproxy/go-control-plane/envoy/config/core/v3"

	"github.com/kitex-contrib/xds/core/manager"
	"github.com/kitex-contrib/xds/core/xdsresource"
)

// engine "conc" (C05, C06, C07): real Get goroutines parked at the yield points of Get by a
// deterministic scheduler; UpdateResource and cancellations are placed between their sections
// exactly as the schedule says.
type concEvent struct {
	E    string      `json:"e"` // invoke | step | wake | timeout | fire | deliver
	T    int         `json:"t"`
	K    int         `json:"k"`
	RT   string      `json:"rt"`
	Up   [][2]uint64 `json:"up"` // (key, stamp)
	Kind int         `json:"kind"` // invoke with an unknown resource kind when 1
	KIdx int         `json:"kidx"` // which unknown kind
}

type concCase struct {
	ID     int         `json:"id"`
	Keys   [][2]string `json:"keys"` // key index -> (rt, name)
	Events []concEvent `json:"events"`
}

type concThreadObs struct {
	T         int    `json:"t"`
	Result    string `json:"result"` // val | err | nil | bad | none (never finished)
	Stamp     uint64 `json:"stamp"`
	NeedFire  bool   `json:"need_fire"`
	DoneAt    int    `json:"done_at"` // index of the event at which the lookup returned; -1: only in the drain
	DrainedBy string `json:"drained_by"`
}

type concObs struct {
	ID        int             `json:"id"`
	Branches  []int           `json:"branches"` // per event: yield point at which a wake/timeout event found the thread (3/4), else 0
	Threads   []concThreadObs `json:"threads"`
	Notifiers []string        `json:"notifiers"`
	Watches   []string        `json:"watches"` // subscription requests in order: "rt/name-added"
	Fatal     string          `json:"fatal,omitempty"`
}

type yieldMsg struct {
	point int
	ch    <-chan struct{}
}

type getRet struct {
	v   interface{}
	err error
	pan string
}

type cthread struct {
	id      int
	key     int
	arrive  chan yieldMsg
	release chan struct{}
	done    chan getRet
	cancel  context.CancelFunc
	phase   string // running | y1 | waiting | y3 | y4 | done
	ch      <-chan struct{}
	fired   bool
	ret     *getRet
	doneAt  int
}

func (t *cthread) Yield(point int, ch <-chan struct{}) {
	t.arrive <- yieldMsg{point, ch}
	<-t.release
}

func init() { engines["conc"] = runConc }

var unknownKinds = []xdsresource.ResourceType{77, -1, 0, 6, -1000000, 2147483647, 42, -2147483648}

func stampedResource(rt string, stamp uint64) xdsresource.Resource {
	switch rt {
	case "cds":
		return &xdsresource.ClusterResource{EndpointName: fmt.Sprint(stamp)}
	case "rds":
		return &xdsresource.RouteConfigResource{MaxTokens: uint32(stamp)}
	case "lds":
		return &xdsresource.ListenerResource{NetworkFilters: []*xdsresource.NetworkFilter{{RoutePort: uint32(stamp)}}}
	case "eds":
		return &xdsresource.EndpointsResource{Localities: make([]*xdsresource.Locality, int(stamp))}
	}
	return nil
}

func classify(rt string, r *getRet) (string, uint64) {
	if r.pan != "" {
		return "bad", 0
	}
	if r.err != nil {
		if r.v != nil {
			return "bad", 0
		}
		return "err", 0
	}
	switch x := r.v.(type) {
	case nil:
		return "nil", 0
	case *xdsresource.ClusterResource:
		if x == nil {
			return "nil", 0
		}
		if rt != "cds" {
			return "bad", 0
		}
		var s uint64
		fmt.Sscan(x.EndpointName, &s)
		return "val", s
	case *xdsresource.RouteConfigResource:
		if x == nil {
			return "nil", 0
		}
		if rt != "rds" {
			return "bad", 0
		}
		return "val", uint64(x.MaxTokens)
	case *xdsresource.ListenerResource:
		if x == nil {
			return "nil", 0
		}
		if rt != "lds" || len(x.NetworkFilters) != 1 {
			return "bad", 0
		}
		return "val", uint64(x.NetworkFilters[0].RoutePort)
	case *xdsresource.EndpointsResource:
		if x == nil {
			return "nil", 0
		}
		if rt != "eds" {
			return "bad", 0
		}
		return "val", uint64(len(x.Localities))
	}
	return "bad", 0
}

const concWait = 3 * time.Second

// await waits until the thread reaches a yield point or returns.
func (t *cthread) await() (arrived *yieldMsg, finished bool, ok bool) {
	select {
	case m := <-t.arrive:
		return &m, false, true
	case r := <-t.done:
		t.ret = &r
		t.phase = "done"
		return nil, true, true
	case <-time.After(concWait):
		return nil, false, false
	}
}

func runConc(raw json.RawMessage) (out interface{}, err error) {
	var c concCase
	if err := json.Unmarshal(raw, &c); err != nil {
		return nil, err
	}
	o := &concObs{ID: c.ID}
	cfg := manager.VerifBootstrap("default", "cluster.local", &v3core.Node{Id: "conc"}, &manager.XDSServerConfig{
		SvrAddr: "fake", SvrName: "fake", NDSNotRequired: true, LDSNotRequired: true, FetchXDSTimeout: time.Hour,
	})
	ads := newFakeADS()
	m, err := manager.VerifNewManager(cfg, ads, true)
	if err != nil {
		return nil, err
	}
	defer m.Close()
	threads := map[int]*cthread{}
	order := []int{}
	fail := func(f string, a ...interface{}) (interface{}, error) {
		o.Fatal = fmt.Sprintf(f, a...)
		return o, nil
	}
	// settle: a waiting thread that has become enabled moves on to its next yield point by itself
	settle := func(t *cthread) bool {
		if t.phase != "waiting" {
			return true
		}
		closed := false
		select {
		case <-t.ch:
			closed = true
		default:
		}
		if !closed && !t.fired {
			return true
		}
		msg, fin, ok := t.await()
		if !ok {
			return false
		}
		if fin {
			return true
		}
		if msg.point == 3 {
			t.phase = "y3"
		} else {
			t.phase = "y4"
		}
		return true
	}
	finishFrom := func(t *cthread) bool { // release from y3/y4 and wait for the return
		t.release <- struct{}{}
		_, fin, ok := t.await()
		return ok && fin
	}
	version := 0
	for i, ev := range c.Events {
		branch := 0
		switch ev.E {
		case "invoke":
			rt, name := c.Keys[ev.K][0], c.Keys[ev.K][1]
			th := &cthread{id: ev.T, key: ev.K, arrive: make(chan yieldMsg), release: make(chan struct{}), done: make(chan getRet, 1), phase: "running", doneAt: -1}
			base, cancel := context.WithCancel(context.Background())
			th.cancel = cancel
			ctx := manager.VerifWithScheduler(base, th)
			kind := rtNames[rt]
			if ev.Kind == 1 {
				// a kind the manager does not know: beyond the range, zero, negative, extreme
				kind = unknownKinds[ev.KIdx%len(unknownKinds)]
			}
			go func() {
				var r getRet
				defer func() {
					if e := recover(); e != nil {
						r.pan = fmt.Sprint(e)
					}
					th.done <- r
				}()
				r.v, r.err = m.Get(ctx, kind, name)
			}()
			threads[ev.T] = th
			order = append(order, ev.T)
			msg, fin, ok := th.await()
			if !ok {
				return fail("event %d: invoke did not reach a yield point", i)
			}
			if !fin {
				if msg.point != 1 {
					return fail("event %d: expected yield point 1, got %d", i, msg.point)
				}
				th.phase = "y1"
			}
		case "step":
			th := threads[ev.T]
			if th == nil || th.phase != "y1" {
				break // not enabled: no-op, as in the model
			}
			th.release <- struct{}{}
			msg, fin, ok := th.await()
			if !ok {
				return fail("event %d: step did not reach yield point 2", i)
			}
			if !fin {
				if msg.point != 2 {
					return fail("event %d: expected yield point 2, got %d", i, msg.point)
				}
				th.ch = msg.ch
				th.phase = "waiting"
				th.release <- struct{}{} // into the select
				if !settle(th) {
					return fail("event %d: thread did not move on from the select", i)
				}
			}
		case "wake", "timeout":
			th := threads[ev.T]
			if th == nil || (th.phase != "y3" && th.phase != "y4") {
				break
			}
			if th.phase == "y3" {
				branch = 3
			} else {
				branch = 4
			}
			if !finishFrom(th) {
				return fail("event %d: thread did not return", i)
			}
		case "fire":
			th := threads[ev.T]
			if th == nil {
				break
			}
			th.fired = true
			th.cancel()
			if !settle(th) {
				return fail("event %d: fired thread did not move on", i)
			}
		case "deliver":
			version++
			up := map[string]xdsresource.Resource{}
			for _, kv := range ev.Up {
				up[c.Keys[kv[0]][1]] = stampedResource(ev.RT, kv[1])
			}
			m.UpdateResource(rtNames[ev.RT], up, fmt.Sprintf("v%d", version))
			for _, id := range order {
				if !settle(threads[id]) {
					return fail("event %d: woken thread did not move on", i)
				}
			}
		}
		o.Branches = append(o.Branches, branch)
		for _, id := range order {
			if th := threads[id]; th.phase == "done" && th.doneAt < 0 {
				th.doneAt = i
			}
		}
	}
	inDrain := map[int]bool{}
	for _, id := range order {
		inDrain[id] = threads[id].phase != "done"
	}
	// drain: finish every lookup, firing its deadline only if it cannot finish otherwise
	for _, id := range order {
		th := threads[id]
		to := concThreadObs{T: id, DoneAt: th.doneAt}
		if inDrain[id] {
			to.DoneAt = -1
		}
		for guard := 0; th.phase != "done" && guard < 6; guard++ {
			switch th.phase {
			case "y1":
				th.release <- struct{}{}
				msg, fin, ok := th.await()
				if !ok {
					return fail("drain: thread %d stuck after yield point 1", id)
				}
				if !fin {
					th.ch = msg.ch
					th.phase = "waiting"
					th.release <- struct{}{}
					if !settle(th) {
						return fail("drain: thread %d stuck in select", id)
					}
				}
			case "waiting":
				// neither woken nor fired: the deadline has to fire for it to return
				to.NeedFire = true
				th.fired = true
				th.cancel()
				if !settle(th) {
					return fail("drain: fired thread %d did not move on", id)
				}
			case "y3", "y4":
				to.DrainedBy = th.phase
				if !finishFrom(th) {
					return fail("drain: thread %d did not return", id)
				}
			default:
				return fail("drain: thread %d in phase %s", id, th.phase)
			}
		}
		if th.ret != nil {
			to.Result, to.Stamp = classify(c.Keys[th.key][0], th.ret)
		} else {
			to.Result = "none"
		}
		o.Threads = append(o.Threads, to)
	}
	for _, rt := range []string{"lds", "rds", "cds", "eds"} {
		for _, n := range m.VerifNotifierNames(rtNames[rt]) {
			o.Notifiers = append(o.Notifiers, rt+"/"+n)
		}
	}
	// subscription requests, in order
	if m.VerifFlushMarker("c") {
		if s := ads.stream(0); s != nil && s.waitMarker("c", 3*time.Second) {
			prev := map[string]map[string]bool{}
			for _, q := range s.sentCopy() {
				rt := urlToRT[q.TypeUrl]
				if prev[rt] == nil {
					prev[rt] = map[string]bool{}
				}
				for _, n := range q.ResourceNames {
					if !prev[rt][n] {
						prev[rt][n] = true
						o.Watches = append(o.Watches, rt+"/"+n)
					}
				}
				o.Watches = append(o.Watches, "req:"+rt)
			}
		}
	}
	return o, nil
}
