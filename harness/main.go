// Command verifharness runs cases against the real kitex-contrib/xds code (built from
// /repo's working tree with -tags verif) and prints canonical observations, one JSON
// object per line.  Usage: verifharness <engine> < cases.jsonl > obs.jsonl
package main

import (
	"bufio"
	"encoding/json"
	"fmt"
	"io"
	"os"
	"runtime/debug"
	"time"

	"github.com/cloudwego/kitex/pkg/klog"
)

type engine func(raw json.RawMessage) (interface{}, error)

var engines = map[string]engine{}

// runWithWatchdog runs one case; a case that does not finish within 60s is reported as fatal
// (the goroutines it leaves behind are abandoned) instead of stalling the whole run.
func runWithWatchdog(eng engine, raw json.RawMessage) (interface{}, error) {
	type ret struct {
		o interface{}
		e error
	}
	ch := make(chan ret, 1)
	go func() {
		// a panic of the code under test on the engine's own goroutine is an observation of this case, not a failure of the run
		defer func() {
			if p := recover(); p != nil {
				var hdr struct {
					ID int `json:"id"`
				}
				_ = json.Unmarshal(raw, &hdr)
				st := string(debug.Stack())
				if len(st) > 3000 {
					st = st[:3000]
				}
				ch <- ret{map[string]interface{}{"id": hdr.ID, "engine_panic": fmt.Sprint(p), "stack": st}, nil}
			}
		}()
		o, e := eng(raw)
		ch <- ret{o, e}
	}()
	select {
	case r := <-ch:
		return r.o, r.e
	case <-time.After(caseTimeout()):
		var hdr struct {
			ID int `json:"id"`
		}
		_ = json.Unmarshal(raw, &hdr)
		return map[string]interface{}{"id": hdr.ID, "fatal": "case did not finish within 60s (hang)"}, nil
	}
}

func caseTimeout() time.Duration {
	if v := os.Getenv("VERIF_CASE_TIMEOUT_S"); v != "" {
		var n int
		if _, err := fmt.Sscan(v, &n); err == nil && n > 0 {
			return time.Duration(n) * time.Second
		}
	}
	return 60 * time.Second
}

func main() {
	if len(os.Args) < 2 {
		fmt.Fprintln(os.Stderr, "usage: verifharness <engine>")
		os.Exit(2)
	}
	klog.SetLevel(klog.LevelFatal)
	klog.SetOutput(io.Discard)
	eng, ok := engines[os.Args[1]]
	if !ok {
		fmt.Fprintf(os.Stderr, "unknown engine %s\n", os.Args[1])
		os.Exit(2)
	}
	in := bufio.NewReaderSize(os.Stdin, 1<<20)
	out := bufio.NewWriterSize(os.Stdout, 1<<20)
	defer out.Flush()
	enc := json.NewEncoder(out)
	for {
		line, err := in.ReadBytes('\n')
		if len(line) > 1 {
			obs, e := runWithWatchdog(eng, json.RawMessage(line))
			if e != nil {
				fmt.Fprintf(os.Stderr, "harness error: %v\n", e)
				out.Flush()
				os.Exit(3)
			}
			if err2 := enc.Encode(obs); err2 != nil {
				fmt.Fprintf(os.Stderr, "encode error: %v\n", err2)
				os.Exit(3)
			}
		}
		if err != nil {
			break
		}
	}
}
