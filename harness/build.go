package main

// AST -> protobuf messages -> Any.  Used only to *generate* inputs: what the bytes really
// contain is re-read by the independent summariser (summ.go), so a builder bug cannot cause a
// false alarm or hide a difference.  Generator-only constructors (distinguishing which link of
// a nil-able chain is absent) are accepted here and summarise to the same AST.

import (
	"encoding/hex"
	"fmt"
	"time"

	udpatypev1 "github.com/cncf/xds/go/udpa/type/v1"
	clusterv3 "github.com/envoyproxy/go-control-plane/envoy/config/cluster/v3"
	corev3 "github.com/envoyproxy/go-control-plane/envoy/config/core/v3"
	endpointv3 "github.com/envoyproxy/go-control-plane/envoy/config/endpoint/v3"
	listenerv3 "github.com/envoyproxy/go-control-plane/envoy/config/listener/v3"
	routev3 "github.com/envoyproxy/go-control-plane/envoy/config/route/v3"
	lrlv3 "github.com/envoyproxy/go-control-plane/envoy/extensions/filters/http/local_ratelimit/v3"
	hcmv3 "github.com/envoyproxy/go-control-plane/envoy/extensions/filters/network/http_connection_manager/v3"
	thriftv3 "github.com/envoyproxy/go-control-plane/envoy/extensions/filters/network/thrift_proxy/v3"
	matcherv3 "github.com/envoyproxy/go-control-plane/envoy/type/matcher/v3"
	typev3 "github.com/envoyproxy/go-control-plane/envoy/type/v3"
	"google.golang.org/protobuf/proto"
	"google.golang.org/protobuf/types/known/anypb"
	"google.golang.org/protobuf/types/known/durationpb"
	"google.golang.org/protobuf/types/known/structpb"
	"google.golang.org/protobuf/types/known/wrapperspb"

	dnsProto "github.com/kitex-contrib/xds/core/api/kitex_gen/istio.io/istio/pkg/dns/proto/istio_networking_nds_v1"
	"github.com/kitex-contrib/xds/core/xdsresource"
)

var badBytes = []byte{0x0a, 0xff, 0xff, 0xff} // field 1, length-delimited, truncated length varint

// foreignPayload: optional hex payload argument of the generator-only forms of *UnknownUrl
func foreignPayload(n *Node) []byte {
	if len(n.Args) == 0 {
		return nil
	}
	b, err := hex.DecodeString(n.arg(0).str())
	if err != nil {
		panic(err)
	}
	return b
}

func mustAny(url string, m proto.Message) *anypb.Any {
	b, err := proto.MarshalOptions{Deterministic: true}.Marshal(m)
	if err != nil {
		panic(err)
	}
	return &anypb.Any{TypeUrl: url, Value: b}
}

func u32(n *Node) *wrapperspb.UInt32Value {
	if n.isNone() {
		return nil
	}
	return wrapperspb.UInt32(uint32(n.some().num()))
}

func dur(n *Node) *durationpb.Duration {
	if n.isNone() {
		return nil
	}
	return durationpb.New(time.Duration(n.some().zint()))
}

func bHeader(n *Node) *routev3.HeaderMatcher {
	h := &routev3.HeaderMatcher{Name: n.arg(0).str()}
	sp := n.arg(1)
	switch sp.Ctor {
	case "HSString":
		sm := &matcherv3.StringMatcher{}
		p := sp.arg(0)
		switch p.Ctor {
		case "SMExact":
			sm.MatchPattern = &matcherv3.StringMatcher_Exact{Exact: p.arg(0).str()}
		case "SMPrefix":
			sm.MatchPattern = &matcherv3.StringMatcher_Prefix{Prefix: p.arg(0).str()}
		case "SMRegex":
			sm.MatchPattern = &matcherv3.StringMatcher_SafeRegex{SafeRegex: &matcherv3.RegexMatcher{Regex: p.arg(0).str()}}
		case "SMOther":
			sm.MatchPattern = &matcherv3.StringMatcher_Suffix{Suffix: "sfx"}
		case "SMNone":
		}
		h.HeaderMatchSpecifier = &routev3.HeaderMatcher_StringMatch{StringMatch: sm}
	case "HSOther":
		h.HeaderMatchSpecifier = &routev3.HeaderMatcher_PresentMatch{PresentMatch: true}
	case "HSNone":
	}
	return h
}

func bHeaders(n *Node) []*routev3.HeaderMatcher {
	var out []*routev3.HeaderMatcher
	for _, h := range n.list() {
		out = append(out, bHeader(h))
	}
	return out
}

func bRoute(n *Node) *routev3.Route {
	r := &routev3.Route{Name: n.arg(0).str()}
	if m := n.arg(1); !m.isNone() {
		mm := m.some()
		rm := &routev3.RouteMatch{Headers: bHeaders(mm.arg(1))}
		ps := mm.arg(0)
		switch ps.Ctor {
		case "PPrefix":
			rm.PathSpecifier = &routev3.RouteMatch_Prefix{Prefix: ps.arg(0).str()}
		case "PPath":
			rm.PathSpecifier = &routev3.RouteMatch_Path{Path: ps.arg(0).str()}
		case "POther":
			rm.PathSpecifier = &routev3.RouteMatch_SafeRegex{SafeRegex: &matcherv3.RegexMatcher{Regex: ".*"}}
		}
		r.Match = rm
	}
	a := n.arg(2)
	switch a.Ctor {
	case "ARoute":
		ra := a.arg(0)
		act := &routev3.RouteAction{Timeout: dur(ra.arg(1))}
		cs := ra.arg(0)
		switch cs.Ctor {
		case "CSCluster":
			act.ClusterSpecifier = &routev3.RouteAction_Cluster{Cluster: cs.arg(0).str()}
		case "CSWeighted":
			wc := &routev3.WeightedCluster{}
			for _, c := range cs.arg(0).list() {
				wc.Clusters = append(wc.Clusters, &routev3.WeightedCluster_ClusterWeight{Name: c.arg(0).str(), Weight: u32(c.arg(1))})
			}
			act.ClusterSpecifier = &routev3.RouteAction_WeightedClusters{WeightedClusters: wc}
		case "CSOther":
			act.ClusterSpecifier = &routev3.RouteAction_ClusterHeader{ClusterHeader: "x-cluster"}
		}
		if rp := ra.arg(2); !rp.isNone() {
			p := rp.some()
			pol := &routev3.RetryPolicy{RetryOn: p.arg(0).str(), NumRetries: u32(p.arg(1)), PerTryTimeout: dur(p.arg(2)),
				PerTryIdleTimeout: dur(p.arg(3)), RetriableHeaders: bHeaders(p.arg(4))}
			if bo := p.arg(5); !bo.isNone() {
				pol.RetryBackOff = &routev3.RetryPolicy_RetryBackOff{BaseInterval: dur(bo.some().arg(0)), MaxInterval: dur(bo.some().arg(1))}
			}
			act.RetryPolicy = pol
		}
		r.Action = &routev3.Route_Route{Route: act}
	case "AOther":
		r.Action = &routev3.Route_Redirect{Redirect: &routev3.RedirectAction{}}
	}
	return r
}

func bRC(n *Node) *routev3.RouteConfiguration {
	rc := &routev3.RouteConfiguration{Name: n.arg(0).str()}
	for _, v := range n.arg(1).list() {
		vh := &routev3.VirtualHost{Name: v.arg(0).str(), Domains: []string{"*"}}
		for _, r := range v.arg(1).list() {
			vh.Routes = append(vh.Routes, bRoute(r))
		}
		rc.VirtualHosts = append(rc.VirtualHosts, vh)
	}
	return rc
}

func bThriftWC(l *Node) *thriftv3.WeightedCluster {
	wc := &thriftv3.WeightedCluster{}
	for _, c := range l.list() {
		wc.Clusters = append(wc.Clusters, &thriftv3.WeightedCluster_ClusterWeight{Name: c.arg(0).str(), Weight: u32(c.arg(1))})
	}
	return wc
}

func bThrift(n *Node) *thriftv3.ThriftProxy {
	tp := &thriftv3.ThriftProxy{StatPrefix: "t"}
	if rc := n.arg(0); !rc.isNone() {
		c := rc.some()
		trc := &thriftv3.RouteConfiguration{Name: c.arg(0).str()}
		for _, r := range c.arg(1).list() {
			tr := &thriftv3.Route{}
			if m := r.arg(0); !m.isNone() {
				mm := m.some()
				rm := &thriftv3.RouteMatch{Headers: bHeaders(mm.arg(1))}
				switch mm.arg(0).Ctor {
				case "TMMethod":
					rm.MatchSpecifier = &thriftv3.RouteMatch_MethodName{MethodName: mm.arg(0).arg(0).str()}
				case "TMService":
					rm.MatchSpecifier = &thriftv3.RouteMatch_ServiceName{ServiceName: mm.arg(0).arg(0).str()}
				}
				tr.Match = rm
			}
			if a := r.arg(1); !a.isNone() {
				act := &thriftv3.RouteAction{}
				switch a.some().Ctor {
				case "TACluster":
					act.ClusterSpecifier = &thriftv3.RouteAction_Cluster{Cluster: a.some().arg(0).str()}
				case "TAWeighted":
					act.ClusterSpecifier = &thriftv3.RouteAction_WeightedClusters{WeightedClusters: bThriftWC(a.some().arg(0))}
				case "TAOther":
					act.ClusterSpecifier = &thriftv3.RouteAction_ClusterHeader{ClusterHeader: "x"}
				}
				tr.Route = act
			}
			trc.Routes = append(trc.Routes, tr)
		}
		tp.RouteConfig = trc
	}
	return tp
}

func tsValue(v *Node) *structpb.Value {
	if v.Ctor == "TVNum" {
		return structpb.NewNumberValue(float64(v.arg(0).num()))
	}
	return structpb.NewStringValue("not-a-number")
}

func bHTTPFilter(n *Node) *hcmv3.HttpFilter {
	f := &hcmv3.HttpFilter{Name: "f"}
	switch n.Ctor {
	case "HFRateLimit":
		l := &lrlv3.LocalRateLimit{StatPrefix: "s"}
		if b := n.arg(0); !b.isNone() {
			l.TokenBucket = &typev3.TokenBucket{MaxTokens: uint32(b.some().arg(0).num()), TokensPerFill: u32(b.some().arg(1)),
				FillInterval: durationpb.New(time.Second)}
			// generator-only: other fill intervals (same source term: the decoder does not read the interval)
			switch {
			case n.hasFlag("fill-500ms"):
				l.TokenBucket.FillInterval = durationpb.New(500 * time.Millisecond)
			case n.hasFlag("fill-0"):
				l.TokenBucket.FillInterval = durationpb.New(0)
			case n.hasFlag("fill-absent"):
				l.TokenBucket.FillInterval = nil
			case n.hasFlag("fill-1h"):
				l.TokenBucket.FillInterval = durationpb.New(time.Hour)
			}
		}
		f.ConfigType = &hcmv3.HttpFilter_TypedConfig{TypedConfig: mustAny(xdsresource.RateLimitTypeURL, l)}
	case "HFRateLimitBad":
		f.ConfigType = &hcmv3.HttpFilter_TypedConfig{TypedConfig: &anypb.Any{TypeUrl: xdsresource.RateLimitTypeURL, Value: badBytes}}
	case "HFTypedStruct":
		ts := &udpatypev1.TypedStruct{TypeUrl: "type.googleapis.com/envoy.extensions.filters.http.local_ratelimit.v3.LocalRateLimit"}
		if n.hasFlag("foreign-inner") {
			// generator-only: the TypedStruct of another http filter (an EnvoyFilter patch); the decoder looks at the fields only
			ts.TypeUrl = "type.googleapis.com/envoy.extensions.filters.http.lua.v3.Lua"
		}
		if tb := n.arg(0); tb.isNone() {
			if n.hasFlag("value-without-key") { // generator-only: value present without the key
				ts.Value = &structpb.Struct{Fields: map[string]*structpb.Value{"stat_prefix": structpb.NewStringValue("x")}}
			}
		} else {
			fields := map[string]*structpb.Value{"stat_prefix": structpb.NewStringValue("x")}
			t := tb.some()
			if t.Ctor == "TBNotStruct" {
				fields["token_bucket"] = structpb.NewStringValue("oops")
			} else {
				inner := map[string]*structpb.Value{"fill_interval": structpb.NewStringValue("1s")}
				if m := t.arg(0); !m.isNone() {
					inner["max_tokens"] = tsValue(m.some())
				}
				if m := t.arg(1); !m.isNone() {
					inner["tokens_per_fill"] = tsValue(m.some())
				}
				fields["token_bucket"] = structpb.NewStructValue(&structpb.Struct{Fields: inner})
			}
			ts.Value = &structpb.Struct{Fields: fields}
		}
		f.ConfigType = &hcmv3.HttpFilter_TypedConfig{TypedConfig: mustAny(xdsresource.TypedStructTypeURL, ts)}
	case "HFTypedStructBad":
		f.ConfigType = &hcmv3.HttpFilter_TypedConfig{TypedConfig: &anypb.Any{TypeUrl: xdsresource.TypedStructTypeURL, Value: badBytes}}
	case "HFUnknownUrl":
		f.ConfigType = &hcmv3.HttpFilter_TypedConfig{TypedConfig: &anypb.Any{TypeUrl: "type.googleapis.com/envoy.extensions.filters.http.router.v3.Router", Value: foreignPayload(n)}}
	case "HFNotTyped":
		if len(n.Args) > 0 { // generator-only: config discovery instead of unset
			f.ConfigType = &hcmv3.HttpFilter_ConfigDiscovery{ConfigDiscovery: &corev3.ExtensionConfigSource{}}
		}
	default:
		panic("http filter " + n.Ctor)
	}
	return f
}

func bHCM(n *Node) *hcmv3.HttpConnectionManager {
	h := &hcmv3.HttpConnectionManager{StatPrefix: "h"}
	for _, f := range n.arg(0).list() {
		h.HttpFilters = append(h.HttpFilters, bHTTPFilter(f))
	}
	sp := n.arg(1)
	switch sp.Ctor {
	case "RSRds":
		h.RouteSpecifier = &hcmv3.HttpConnectionManager_Rds{Rds: &hcmv3.Rds{RouteConfigName: sp.arg(0).str()}}
	case "RSInline":
		h.RouteSpecifier = &hcmv3.HttpConnectionManager_RouteConfig{RouteConfig: bRC(sp.arg(0))}
	case "RSOther":
		h.RouteSpecifier = &hcmv3.HttpConnectionManager_ScopedRoutes{ScopedRoutes: &hcmv3.ScopedRoutes{Name: "s"}}
	}
	return h
}

func bNFilter(n *Node) *listenerv3.Filter {
	f := &listenerv3.Filter{Name: "nf"}
	switch n.Ctor {
	case "NFThrift":
		f.ConfigType = &listenerv3.Filter_TypedConfig{TypedConfig: mustAny(xdsresource.ThriftProxyTypeURL, bThrift(n.arg(0)))}
	case "NFThriftBad":
		f.ConfigType = &listenerv3.Filter_TypedConfig{TypedConfig: &anypb.Any{TypeUrl: xdsresource.ThriftProxyTypeURL, Value: badBytes}}
	case "NFHcm":
		f.ConfigType = &listenerv3.Filter_TypedConfig{TypedConfig: mustAny(xdsresource.HTTPConnManagerTypeURL, bHCM(n.arg(0)))}
	case "NFHcmBad":
		f.ConfigType = &listenerv3.Filter_TypedConfig{TypedConfig: &anypb.Any{TypeUrl: xdsresource.HTTPConnManagerTypeURL, Value: badBytes}}
	case "NFUnknownUrl":
		f.ConfigType = &listenerv3.Filter_TypedConfig{TypedConfig: &anypb.Any{TypeUrl: "type.googleapis.com/envoy.extensions.filters.network.tcp_proxy.v3.TcpProxy", Value: foreignPayload(n)}}
	case "NFNotTyped":
		if len(n.Args) > 0 {
			f.ConfigType = &listenerv3.Filter_ConfigDiscovery{ConfigDiscovery: &corev3.ExtensionConfigSource{}}
		}
	default:
		panic("network filter " + n.Ctor)
	}
	return f
}

func bChain(n *Node) *listenerv3.FilterChain {
	fc := &listenerv3.FilterChain{}
	p := n.arg(0)
	if p.Kind == 'c' && p.Ctor == "MatchWithoutPort" { // generator-only
		fc.FilterChainMatch = &listenerv3.FilterChainMatch{}
	} else if !p.isNone() {
		fc.FilterChainMatch = &listenerv3.FilterChainMatch{DestinationPort: wrapperspb.UInt32(uint32(p.some().num()))}
	}
	for _, f := range n.arg(1).list() {
		fc.Filters = append(fc.Filters, bNFilter(f))
	}
	return fc
}

func bListener(n *Node) *listenerv3.Listener {
	l := &listenerv3.Listener{Name: n.arg(0).str()}
	for _, c := range n.arg(1).list() {
		l.FilterChains = append(l.FilterChains, bChain(c))
	}
	if d := n.arg(2); !d.isNone() {
		l.DefaultFilterChain = bChain(d.some())
	}
	return l
}

func bCLA(n *Node) *endpointv3.ClusterLoadAssignment {
	c := &endpointv3.ClusterLoadAssignment{ClusterName: n.arg(0).str()}
	for _, loc := range n.arg(1).list() {
		l := &endpointv3.LocalityLbEndpoints{}
		for _, e := range loc.list() {
			le := &endpointv3.LbEndpoint{LoadBalancingWeight: u32(e.arg(1))}
			s := e.arg(0)
			switch {
			case s.Kind == 'c' && s.Ctor == "NoHostIdentifier":
			case s.Kind == 'c' && s.Ctor == "EndpointName":
				le.HostIdentifier = &endpointv3.LbEndpoint_EndpointName{EndpointName: "named"}
			case s.Kind == 'c' && s.Ctor == "NoAddress":
				le.HostIdentifier = &endpointv3.LbEndpoint_Endpoint{Endpoint: &endpointv3.Endpoint{}}
			case s.Kind == 'c' && s.Ctor == "PipeAddress":
				le.HostIdentifier = &endpointv3.LbEndpoint_Endpoint{Endpoint: &endpointv3.Endpoint{Address: &corev3.Address{
					Address: &corev3.Address_Pipe{Pipe: &corev3.Pipe{Path: "/p"}}}}}
			case s.isNone():
				le.HostIdentifier = &endpointv3.LbEndpoint_Endpoint{Endpoint: &endpointv3.Endpoint{Address: &corev3.Address{}}}
			default:
				sa := s.some()
				sock := &corev3.SocketAddress{Address: sa.arg(0).str()}
				if len(sa.Args) > 2 { // generator-only: named port
					sock.PortSpecifier = &corev3.SocketAddress_NamedPort{NamedPort: "http"}
				} else {
					sock.PortSpecifier = &corev3.SocketAddress_PortValue{PortValue: uint32(sa.arg(1).num())}
				}
				le.HostIdentifier = &endpointv3.LbEndpoint_Endpoint{Endpoint: &endpointv3.Endpoint{Address: &corev3.Address{
					Address: &corev3.Address_SocketAddress{SocketAddress: sock}}}}
			}
			l.LbEndpoints = append(l.LbEndpoints, le)
		}
		c.Endpoints = append(c.Endpoints, l)
	}
	return c
}

func bCluster(n *Node) *clusterv3.Cluster {
	c := &clusterv3.Cluster{Name: n.arg(0).str(), LbPolicy: clusterv3.Cluster_LbPolicy(n.arg(2).num())}
	if t := n.arg(1); t.Kind == 'c' && t.Ctor == "CustomType" {
		c.ClusterDiscoveryType = &clusterv3.Cluster_ClusterType{ClusterType: &clusterv3.Cluster_CustomClusterType{Name: "custom"}}
	} else if !t.isNone() {
		c.ClusterDiscoveryType = &clusterv3.Cluster_Type{Type: clusterv3.Cluster_DiscoveryType(t.some().num())}
	}
	if e := n.arg(3); !e.isNone() {
		c.EdsClusterConfig = &clusterv3.Cluster_EdsClusterConfig{ServiceName: e.some().str()}
	}
	if o := n.arg(4); !o.isNone() {
		c.OutlierDetection = &clusterv3.OutlierDetection{FailurePercentageThreshold: u32(o.some().arg(0)),
			FailurePercentageRequestVolume: u32(o.some().arg(1))}
	}
	if l := n.arg(5); !l.isNone() {
		c.LoadAssignment = bCLA(l.some())
	}
	return c
}

func bNameTable(n *Node) *dnsProto.NameTable {
	t := &dnsProto.NameTable{Table: map[string]*dnsProto.NameTable_NameInfo{}}
	for _, kv := range n.arg(0).list() {
		var ips []string
		for _, ip := range kv.arg(1).list() {
			ips = append(ips, ip.str())
		}
		t.Table[kv.arg(0).str()] = &dnsProto.NameTable_NameInfo{Ips: ips, Registry: "Kubernetes"}
	}
	return t
}

var typeURLs = map[string]string{
	"lds": xdsresource.ListenerTypeURL, "rds": xdsresource.RouteTypeURL, "cds": xdsresource.ClusterTypeURL,
	"eds": xdsresource.EndpointTypeURL, "nds": xdsresource.NameTableTypeURL,
}

// buildRes turns a resource slot (RGood ast | RWrongUrl | RUnparsable) into an Any.
func buildRes(kind string, n *Node) (a *anypb.Any, err error) {
	defer func() {
		if e := recover(); e != nil {
			err = fmt.Errorf("builder: %v", e)
		}
	}()
	url := typeURLs[kind]
	switch n.Ctor {
	case "RWrongUrl":
		return &anypb.Any{TypeUrl: "type.googleapis.com/envoy.config.core.v3.Node", Value: foreignPayload(n)}, nil
	case "RUnparsable":
		return &anypb.Any{TypeUrl: url, Value: badBytes}, nil
	case "RWrongUrlOf":
		// generator-only: the bytes of a well-formed resource of this kind under the type url of ANOTHER xDS kind
		// (e.g. exactly the bytes a previous, accepted response carried); the summariser reads it back as RWrongUrl
		inner, err := buildRes(kind, &Node{Ctor: "RGood", Args: n.Args})
		if err != nil {
			return nil, err
		}
		other := typeURLs["cds"]
		if kind == "cds" {
			other = typeURLs["eds"]
		}
		return &anypb.Any{TypeUrl: other, Value: inner.Value}, nil
	case "RGood":
		var m proto.Message
		switch kind {
		case "lds":
			m = bListener(n.arg(0))
		case "rds":
			m = bRC(n.arg(0))
		case "cds":
			m = bCluster(n.arg(0))
		case "eds":
			m = bCLA(n.arg(0))
		case "nds":
			m = bNameTable(n.arg(0))
		}
		return mustAny(url, m), nil
	}
	return nil, fmt.Errorf("resource slot %s", n.Ctor)
}
