package main

import (
	"context"
	"encoding/json"
	"fmt"
	"net"
	"os"
	"time"

	v3core "github.com/envoyproxy/go-control-plane/envoy/config/core/v3"

	xds "github.com/kitex-contrib/xds"
	"github.com/kitex-contrib/xds/core/manager"
	"github.com/kitex-contrib/xds/core/manager/mock"
	"github.com/kitex-contrib/xds/core/xdsresource"
	"github.com/kitex-contrib/xds/xdssuite"
)

// engine "boot" (C20): newBootstrapConfig from the environment, and the node carried by requests.
type bootCase struct {
	ID       int                `json:"id"`
	Env      map[string]*string `json:"env"` // nil = unset
	WithNode bool               `json:"with_node"`
}

type metaVal struct {
	S *string `json:"s,omitempty"`
	O *string `json:"o,omitempty"` // canonical JSON of a non-string value
}

type bootObs struct {
	ID      int                `json:"id"`
	Err     bool               `json:"err"`
	NodeID  string             `json:"node_id"`
	Meta    map[string]metaVal `json:"meta"`
	NS      string             `json:"ns"`
	Dom     string             `json:"dom"`
	ReqNode *string            `json:"req_node"`
	ReqMeta map[string]metaVal `json:"req_meta"`
}

var bootEnvKeys = []string{"POD_NAMESPACE", "POD_NAME", "INSTANCE_IP", "KITEX_XDS_DOMAIN", "ISTIO_VERSION", "KITEX_XDS_METAS"}

func canonMeta(node *v3core.Node) map[string]metaVal {
	out := map[string]metaVal{}
	if node == nil || node.Metadata == nil {
		return out
	}
	for k, v := range node.Metadata.AsMap() {
		if s, ok := v.(string); ok {
			s := s
			out[k] = metaVal{S: &s}
		} else {
			b, _ := json.Marshal(v)
			o := string(b)
			out[k] = metaVal{O: &o}
		}
	}
	return out
}

func setEnv(env map[string]*string) {
	for _, k := range bootEnvKeys {
		if v, ok := env[k]; ok && v != nil {
			os.Setenv(k, *v)
		} else {
			os.Unsetenv(k)
		}
	}
}

func init() {
	engines["boot"] = runBoot
	engines["init"] = runInit
}

func runBoot(raw json.RawMessage) (interface{}, error) {
	var c bootCase
	if err := json.Unmarshal(raw, &c); err != nil {
		return nil, err
	}
	setEnv(c.Env)
	o := bootObs{ID: c.ID}
	cfg, err := manager.VerifBootstrapFromEnv(&manager.XDSServerConfig{SvrAddr: "fake", SvrName: "fake", NDSNotRequired: true, LDSNotRequired: true})
	if err != nil || cfg == nil {
		o.Err = true
		return o, nil
	}
	node, ns, dom := cfg.VerifNode()
	o.NodeID, o.NS, o.Dom = node.GetId(), ns, dom
	o.Meta = canonMeta(node)
	if c.WithNode {
		ads := newFakeADS()
		m, err := manager.VerifNewManager(cfg, ads, true)
		if err != nil {
			return nil, err
		}
		ctx, cancel := context.WithCancel(context.Background())
		cancel()
		_, _ = m.Get(ctx, xdsresource.ClusterType, "probe")
		if !m.VerifFlushMarker("b") {
			return nil, fmt.Errorf("queue full")
		}
		s := ads.stream(0)
		if s == nil || !s.waitMarker("b", 5*time.Second) {
			return nil, fmt.Errorf("marker not seen")
		}
		reqs := s.sentCopy()
		if len(reqs) > 0 {
			id := reqs[0].GetNode().GetId()
			o.ReqNode = &id
			o.ReqMeta = canonMeta(reqs[0].GetNode())
		}
		m.Close()
	}
	return o, nil
}

// engine "init" (C20 first-wins): one case per process (the singleton is process-global).
type initOp struct {
	Kind  string `json:"kind"` // "set" | "init"
	Name  string `json:"name"` // for set
	EnvOK bool   `json:"env_ok"`
}

type initCase struct {
	ID  int      `json:"id"`
	Ops []initOp `json:"ops"`
}

type initObs struct {
	ID     int    `json:"id"`
	Errs   []bool `json:"errs"`
	Served string `json:"served"` // "" none, fake name, "init", or "panic" when an operation panicked (no model produces that)
	Panic  string `json:"panic,omitempty"`
}

type namedFake struct {
	*fakeManager
	name string
}

func runInit(raw json.RawMessage) (interface{}, error) {
	var c initCase
	if err := json.Unmarshal(raw, &c); err != nil {
		return nil, err
	}
	o := initObs{ID: c.ID}
	fakes := []*namedFake{}
	var addr string
	for _, op := range c.Ops {
		switch op.Kind {
		case "set":
			f := &namedFake{newFakeManager(), op.Name}
			fakes = append(fakes, f)
			func() {
				defer func() {
					if e := recover(); e != nil {
						o.Panic = fmt.Sprint(e)
						o.Errs = append(o.Errs, true)
					}
				}()
				err := xdssuite.SetXDSResourceManager(f)
				o.Errs = append(o.Errs, err != nil)
			}()
		case "init":
			env := map[string]*string{}
			if op.EnvOK {
				a, b, ip := "default", "pod", "10.0.0.1"
				env["POD_NAMESPACE"], env["POD_NAME"], env["INSTANCE_IP"] = &a, &b, &ip
			}
			setEnv(env)
			if addr == "" {
				l, err := net.Listen("tcp", "127.0.0.1:0")
				if err != nil {
					return nil, err
				}
				addr = l.Addr().String()
				l.Close()
				mock.StartXDSServer(addr)
			}
			func() {
				defer func() {
					if e := recover(); e != nil {
						o.Panic = fmt.Sprint(e)
						o.Errs = append(o.Errs, true)
					}
				}()
				err := xds.Init(xds.WithXDSServerAddress(addr))
				o.Errs = append(o.Errs, err != nil)
			}()
		}
	}
	if xdssuite.XDSInited() {
		r := xdssuite.NewXDSResolver()
		ctx, cancel := context.WithTimeout(context.Background(), 50*time.Millisecond)
		_, _ = r.Resolve(ctx, "probe")
		cancel()
		o.Served = "init"
		for _, f := range fakes {
			if len(f.calls) > 0 {
				o.Served = f.name
			}
		}
	}
	if o.Panic != "" {
		o.Served = "panic"
	}
	return o, nil
}
