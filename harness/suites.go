package main

import (
	"context"
	"fmt"

	"github.com/kitex-contrib/xds/core/manager"
	"github.com/kitex-contrib/xds/xdssuite"
)

// suites: the xdssuite policy consumers registered on the real manager (filled in by policy.go)
type suites struct {
	m   *manager.VerifManager
	imp *suitesImpl
}

func newSuites(m *manager.VerifManager) *suites {
	setTarget(m)
	return &suites{m: m, imp: newSuitesImpl()}
}

func (s *suites) register(what string, port uint32) { s.imp.register(what, port) }
func (s *suites) dump() interface{}                 { return s.imp.dump() }

// resolve runs the real XDSResolver against the real manager.
func (r *sysRun) resolve(ctx context.Context, desc string) (out interface{}) {
	defer func() {
		if e := recover(); e != nil {
			_ = fmt.Sprint(e)
			out = C("LPanic")
		}
	}()
	setTarget(r.m)
	res, err := xdssuite.NewXDSResolver().Resolve(ctx, desc)
	if err != nil {
		return C("LResolved", nil)
	}
	var insts []interface{}
	for _, in := range res.Instances {
		insts = append(insts, P(in.Address().String(), uint64(in.Weight())))
	}
	if !res.Cacheable || res.CacheKey != desc {
		return C("LOther")
	}
	return C("LResolved", Some(Lof(insts)))
}
