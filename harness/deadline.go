package main

import (
	"context"
	"encoding/json"
	"sync"
	"time"

	v3core "github.com/envoyproxy/go-control-plane/envoy/config/core/v3"

	"github.com/kitex-contrib/xds/core/manager"
	"github.com/kitex-contrib/xds/core/xdsresource"
)

// engine "deadline" (C05, wall-clock part): lookups of a name the control plane does not (or
// only later) supply, under a fetch timeout and a caller deadline / cancellation; the time each
// lookup takes to return is measured.  All items of a case run in parallel on their own managers.
type dlItem struct {
	FtMs      int64  `json:"ft_ms"`
	FtUs      int64  `json:"ft_us"`  // when > 0: the fetch timeout in microseconds (FtMs is then its value rounded up to a millisecond)
	Caller    string `json:"caller"` // none | deadline | cancel
	CallerMs  int64  `json:"caller_ms"`
	DeliverMs int64  `json:"deliver_ms"` // -1: never delivered
	// JoinMs > 0: the measured lookup is a SECOND caller of the same name that starts JoinMs after a first caller
	// (which has no caller deadline); DeliverMs stays relative to the first caller's start
	JoinMs int64 `json:"join_ms"`
}

type dlCase struct {
	ID    int      `json:"id"`
	Items []dlItem `json:"items"`
}

type dlRes struct {
	ElapsedMs int64  `json:"elapsed_ms"`
	Kind      string `json:"kind"` // val | err | nil | bad | hang
}

func init() {
	engines["deadline"] = func(raw json.RawMessage) (interface{}, error) {
		var c dlCase
		if err := json.Unmarshal(raw, &c); err != nil {
			return nil, err
		}
		res := make([]dlRes, len(c.Items))
		var wg sync.WaitGroup
		for i := range c.Items {
			wg.Add(1)
			go func(i int) {
				defer wg.Done()
				it := c.Items[i]
				ft := time.Duration(it.FtMs) * time.Millisecond
				if it.FtUs > 0 {
					ft = time.Duration(it.FtUs) * time.Microsecond
				}
				cfg := manager.VerifBootstrap("default", "cluster.local", &v3core.Node{Id: "dl"}, &manager.XDSServerConfig{
					SvrAddr: "fake", SvrName: "fake", NDSNotRequired: true, LDSNotRequired: true, FetchXDSTimeout: ft,
				})
				m, err := manager.VerifNewManager(cfg, newFakeADS(), true)
				if err != nil {
					res[i] = dlRes{Kind: "bad"}
					return
				}
				defer m.Close()
				ctx := context.Background()
				var cancel context.CancelFunc = func() {}
				switch it.Caller {
				case "deadline":
					ctx, cancel = context.WithTimeout(ctx, time.Duration(it.CallerMs)*time.Millisecond)
				case "cancel":
					ctx, cancel = context.WithCancel(ctx)
					go func(c context.CancelFunc) {
						time.Sleep(time.Duration(it.CallerMs) * time.Millisecond)
						c()
					}(cancel)
				}
				defer cancel()
				if it.DeliverMs >= 0 {
					go func() {
						time.Sleep(time.Duration(it.DeliverMs) * time.Millisecond)
						m.UpdateResource(xdsresource.ClusterType, map[string]xdsresource.Resource{"c1": stampedResource("cds", 7)}, "v1")
					}()
				}
				if it.JoinMs > 0 {
					// the first caller: creates the notifier and waits out its own fetch timeout
					go func() {
						defer func() { recover() }()
						m.Get(context.Background(), xdsresource.ClusterType, "c1")
					}()
					time.Sleep(time.Duration(it.JoinMs) * time.Millisecond)
				}
				done := make(chan getRet, 1)
				start := time.Now()
				go func() {
					var r getRet
					defer func() {
						if e := recover(); e != nil {
							r.pan = "panic"
						}
						done <- r
					}()
					r.v, r.err = m.Get(ctx, xdsresource.ClusterType, "c1")
				}()
				select {
				case r := <-done:
					k, _ := classify("cds", &r)
					res[i] = dlRes{ElapsedMs: time.Since(start).Milliseconds(), Kind: k}
				case <-time.After(8 * time.Second):
					res[i] = dlRes{ElapsedMs: 8000, Kind: "hang"}
				}
			}(i)
		}
		wg.Wait()
		return map[string]interface{}{"id": c.ID, "results": res}, nil
	}
}
