package main

import (
	"context"
	"encoding/json"
	"fmt"

	"github.com/cloudwego/kitex/pkg/rpcinfo"

	"github.com/kitex-contrib/xds/core/xdsresource"
	"github.com/kitex-contrib/xds/xdssuite"
)

// engine "pick" (C09): route a call N times over a route whose weighted clusters carry the
// given weights; report how often each cluster was picked, errors and panics.
type pickCase struct {
	ID      int      `json:"id"`
	Weights []uint32 `json:"weights"`
	N       int      `json:"n"`
}

type pickObs struct {
	ID     int   `json:"id"`
	Counts []int `json:"counts"`
	Errs   int   `json:"errs"`
	Panics int   `json:"panics"`
	Other  int   `json:"other"`
}

func init() { engines["pick"] = runPick }

func routeOnce(r *xdssuite.XDSRouter, ri rpcinfo.RPCInfo) (res *xdssuite.RouteResult, err error, panicked bool) {
	defer func() {
		if e := recover(); e != nil {
			panicked = true
		}
	}()
	res, err = r.Route(context.Background(), ri)
	return
}

func runPick(raw json.RawMessage) (interface{}, error) {
	var c pickCase
	if err := json.Unmarshal(raw, &c); err != nil {
		return nil, err
	}
	wcs := make([]*xdsresource.WeightedCluster, len(c.Weights))
	idx := map[string]int{}
	for i, w := range c.Weights {
		n := fmt.Sprintf("c%d", i)
		wcs[i] = &xdsresource.WeightedCluster{Name: n, Weight: w}
		idx[n] = i
	}
	route := &xdsresource.Route{Match: &xdsresource.HTTPRouteMatch{Prefix: "/"}, WeightedClusters: wcs}
	lis := &xdsresource.ListenerResource{NetworkFilters: []*xdsresource.NetworkFilter{{
		FilterType: xdsresource.NetworkFilterTypeHTTP,
		InlineRouteConfig: &xdsresource.RouteConfigResource{HTTPRouteConfig: &xdsresource.HTTPRouteConfig{
			VirtualHosts: []*xdsresource.VirtualHost{{Name: "vh", Routes: []*xdsresource.Route{route}}},
		}},
	}}}
	fm := newFakeManager()
	fm.set(xdsresource.ListenerType, "svc", lis, nil)
	setTarget(fm)
	router := xdssuite.NewXDSRouter()
	to := rpcinfo.NewEndpointInfo("svc", "method", nil, nil)
	ri := rpcinfo.NewRPCInfo(nil, to, rpcinfo.NewInvocation("svc", "method", "pkg"), rpcinfo.NewRPCConfig(), nil)
	obs := pickObs{ID: c.ID, Counts: make([]int, len(c.Weights))}
	for k := 0; k < c.N; k++ {
		res, err, p := routeOnce(router, ri)
		fm.calls = fm.calls[:0]
		switch {
		case p:
			obs.Panics++
		case err != nil:
			obs.Errs++
		default:
			if i, ok := idx[res.ClusterPicked]; ok {
				obs.Counts[i]++
			} else {
				obs.Other++
			}
		}
	}
	return obs, nil
}
