package main

import (
	"context"
	"encoding/json"
	"fmt"

	"github.com/cloudwego/kitex/client"
	"github.com/cloudwego/kitex/pkg/rpcinfo"
	"github.com/cloudwego/kitex/pkg/utils"
	routev3 "github.com/envoyproxy/go-control-plane/envoy/config/route/v3"
	"google.golang.org/protobuf/types/known/anypb"
	"google.golang.org/protobuf/types/known/wrapperspb"

	"github.com/kitex-contrib/xds/core/xdsresource"
	"github.com/kitex-contrib/xds/xdssuite"
)

// engine "pick" (C09): route a call N times over a route whose weighted clusters carry the
// given weights; report how often each cluster was picked, errors and panics.
type pickCase struct {
	ID      int      `json:"id"`
	Weights []uint32 `json:"weights"`
	N       int      `json:"n"`
	// Names[i]: index of the name cluster i is listed under (a route may list one cluster several times); empty: all distinct.
	// Counts are reported per name, in the order of first occurrence.
	Names []int `json:"names"`
	// Suites: the retry and circuit-breaker consumers of a client suite are registered on the same manager and have been
	// run for the route table before the calls are routed (as in a client built with NewClientSuite)
	Suites bool `json:"suites"`
}

type pickObs struct {
	ID     int   `json:"id"`
	Counts []int `json:"counts"`
	Errs   int   `json:"errs"`
	Panics int   `json:"panics"`
	Other  int   `json:"other"`
}

func init() { engines["pick"] = runPick }

func routeOnce(r *xdssuite.XDSRouter, ri rpcinfo.RPCInfo) (res *xdssuite.RouteResult, err error, panicked bool) {
	defer func() {
		if e := recover(); e != nil {
			panicked = true
		}
	}()
	res, err = r.Route(context.Background(), ri)
	return
}

func runPick(raw json.RawMessage) (interface{}, error) {
	var c pickCase
	if err := json.Unmarshal(raw, &c); err != nil {
		return nil, err
	}
	// the weights travel the way the control plane sends them: a RouteConfiguration message with weighted
	// clusters, decoded by the real UnmarshalRDS, served as the named route table of a listener
	idx := map[string]int{}
	var pcs []*routev3.WeightedCluster_ClusterWeight
	for i, w := range c.Weights {
		n := fmt.Sprintf("c%d", i)
		if i < len(c.Names) {
			n = fmt.Sprintf("c%d", c.Names[i])
		}
		pcs = append(pcs, &routev3.WeightedCluster_ClusterWeight{Name: n, Weight: wrapperspb.UInt32(w)})
		if _, ok := idx[n]; !ok {
			idx[n] = len(idx)
		}
	}
	rcpb := &routev3.RouteConfiguration{Name: "rc", VirtualHosts: []*routev3.VirtualHost{{Name: "vh", Routes: []*routev3.Route{{
		Match: &routev3.RouteMatch{PathSpecifier: &routev3.RouteMatch_Prefix{Prefix: "/"}},
		Action: &routev3.Route_Route{Route: &routev3.RouteAction{ClusterSpecifier: &routev3.RouteAction_WeightedClusters{
			WeightedClusters: &routev3.WeightedCluster{Clusters: pcs}}}},
	}}}}}
	a, err := anypb.New(rcpb)
	if err != nil {
		return nil, err
	}
	a.TypeUrl = xdsresource.RouteTypeURL
	decoded, err := xdsresource.UnmarshalRDS([]*anypb.Any{a})
	if err != nil || decoded["rc"] == nil {
		return nil, fmt.Errorf("pick: the generated route configuration did not decode: %v", err)
	}
	observeJSON(c.ID, decoded)
	lis := &xdsresource.ListenerResource{NetworkFilters: []*xdsresource.NetworkFilter{{
		FilterType: xdsresource.NetworkFilterTypeHTTP, RouteConfigName: "rc",
	}}}
	fm := newFakeManager()
	fm.set(xdsresource.ListenerType, "svc", lis, nil)
	fm.set(xdsresource.RouteConfigType, "rc", decoded["rc"], nil)
	setTarget(fm)
	if c.Suites {
		cos := &client.Options{}
		xdssuite.NewRetryPolicy().F(cos, &utils.Slice{})
		xdssuite.NewCircuitBreaker().F(cos, &utils.Slice{})
		fm.fire(xdsresource.RouteConfigType)
	}
	router := xdssuite.NewXDSRouter()
	to := rpcinfo.NewEndpointInfo("svc", "method", nil, nil)
	ri := rpcinfo.NewRPCInfo(nil, to, rpcinfo.NewInvocation("svc", "method", "pkg"), rpcinfo.NewRPCConfig(), nil)
	obs := pickObs{ID: c.ID, Counts: make([]int, len(idx))}
	for k := 0; k < c.N; k++ {
		res, err, p := routeOnce(router, ri)
		fm.calls = fm.calls[:0]
		switch {
		case p:
			obs.Panics++
		case err != nil:
			obs.Errs++
		default:
			if i, ok := idx[res.ClusterPicked]; ok {
				obs.Counts[i]++
			} else {
				obs.Other++
			}
		}
	}
	return obs, nil
}
