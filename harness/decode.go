package main

import (
	"encoding/hex"
	"encoding/json"
	"fmt"

	"google.golang.org/protobuf/types/known/anypb"

	"github.com/kitex-contrib/xds/core/xdsresource"
)

// engine "decode" (C11, C12, C13): run the real Unmarshal* on a response built from AST
// resources (optionally with byte-level mutations) and report (a) what the bytes contain
// (summary), (b) the decoder's verdict and decoded content.
type mutation struct {
	Res  int    `json:"res"`  // index of the resource slot
	Kind string `json:"kind"` // truncate | flip | swapurl | append | zero
	Pos  int    `json:"pos"`
	Arg  int    `json:"arg"`
}

type decodeCase struct {
	ID        int               `json:"id"`
	Kind      string            `json:"kind"` // lds rds cds eds nds
	Resources []json.RawMessage `json:"resources"`
	Mutations []mutation        `json:"mutations"`
	RawHex    []string          `json:"raw_hex"` // optional: extra raw Any values (hex) with the right url
}

type decodeObs struct {
	ID         int         `json:"id"`
	Summary    interface{} `json:"summary"`
	Err        bool        `json:"err"`
	Panic      string      `json:"panic"`
	Decoded    interface{} `json:"decoded"`
	ReValid    interface{} `json:"re_valid"`
	Rates      interface{} `json:"rates"`
	Unmodelled []string    `json:"unmodelled"`
	Sizes      []int       `json:"sizes"`
}

func init() { engines["decode"] = runDecode }

func applyMutation(a *anypb.Any, m mutation) {
	v := a.Value
	switch m.Kind {
	case "truncate":
		if len(v) > 0 {
			a.Value = append([]byte(nil), v[:m.Pos%len(v)]...)
		}
	case "flip":
		if len(v) > 0 {
			w := append([]byte(nil), v...)
			w[m.Pos%len(w)] ^= byte(1 << uint(m.Arg%8))
			a.Value = w
		}
	case "zero":
		if len(v) > 0 {
			w := append([]byte(nil), v...)
			w[m.Pos%len(w)] = byte(m.Arg)
			a.Value = w
		}
	case "append":
		a.Value = append(append([]byte(nil), v...), byte(m.Arg), byte(m.Pos))
	case "swapurl":
		urls := []string{xdsresource.ListenerTypeURL, xdsresource.RouteTypeURL, xdsresource.ClusterTypeURL,
			xdsresource.EndpointTypeURL, xdsresource.NameTableTypeURL, ""}
		a.TypeUrl = urls[m.Arg%len(urls)]
	}
}

func decodeReal(kind string, anys []*anypb.Any, id int) (decoded interface{}, isErr bool, panicked string) {
	defer func() {
		if e := recover(); e != nil {
			panicked = fmt.Sprint(e)
		}
	}()
	switch kind {
	case "lds":
		res, err := xdsresource.UnmarshalLDS(anys)
		if err != nil {
			return nil, true, ""
		}
		observeJSON(id, res)
		m := map[string]xdsresource.Resource{}
		for k, v := range res {
			m[k] = v
		}
		return dMap(m), false, ""
	case "rds":
		res, err := xdsresource.UnmarshalRDS(anys)
		if err != nil {
			return nil, true, ""
		}
		observeJSON(id, res)
		return dMap(res), false, ""
	case "cds":
		res, err := xdsresource.UnmarshalCDS(anys)
		if err != nil {
			return nil, true, ""
		}
		observeJSON(id, res)
		return dMap(res), false, ""
	case "eds":
		res, err := xdsresource.UnmarshalEDS(anys)
		if err != nil {
			return nil, true, ""
		}
		observeJSON(id, res)
		return dMap(res), false, ""
	case "nds":
		res, err := xdsresource.UnmarshalNDS(anys)
		if err != nil {
			return nil, true, ""
		}
		return dTable(res.NameTable), false, ""
	}
	return nil, true, "unknown kind"
}

func runDecode(raw json.RawMessage) (interface{}, error) {
	var c decodeCase
	if err := json.Unmarshal(raw, &c); err != nil {
		return nil, err
	}
	var anys []*anypb.Any
	for _, r := range c.Resources {
		n, err := parseNode(r)
		if err != nil {
			return nil, err
		}
		a, err := buildRes(c.Kind, n)
		if err != nil {
			return nil, err
		}
		anys = append(anys, a)
	}
	for _, h := range c.RawHex {
		b, err := hex.DecodeString(h)
		if err != nil {
			return nil, err
		}
		anys = append(anys, &anypb.Any{TypeUrl: typeURLs[c.Kind], Value: b})
	}
	for _, m := range c.Mutations {
		if len(anys) > 0 {
			applyMutation(anys[m.Res%len(anys)], m)
		}
	}
	o := decodeObs{ID: c.ID}
	ctx := newSummCtx()
	var sum []interface{}
	for _, a := range anys {
		sum = append(sum, ctx.summarise(c.Kind, a))
		o.Sizes = append(o.Sizes, len(a.Value))
	}
	o.Summary = Lof(sum)
	o.ReValid, o.Rates = ctx.oracles()
	o.Unmodelled = ctx.unmodelled
	o.Decoded, o.Err, o.Panic = decodeReal(c.Kind, anys, c.ID)
	return o, nil
}
