package main

import (
	"context"
	"encoding/json"
	"errors"
	"fmt"
	"time"

	"github.com/bytedance/gopkg/cloud/metainfo"
	"github.com/cloudwego/kitex/client"
	"github.com/cloudwego/kitex/pkg/kerrors"
	"github.com/cloudwego/kitex/pkg/retry"
	"github.com/cloudwego/kitex/pkg/rpcinfo"
	"github.com/cloudwego/kitex/pkg/rpcinfo/remoteinfo"
	"github.com/cloudwego/kitex/pkg/utils"
	"github.com/cloudwego/kitex/transport"
	"google.golang.org/protobuf/types/known/anypb"

	"github.com/kitex-contrib/xds/core/xdsresource"
	"github.com/kitex-contrib/xds/xdssuite"
)

// engine "mw" (C15): the routing middleware and the retry-key computation on a
// fault-injecting manager.  engine "resolve" (C10/C15): XDSResolver on the same kind of manager.
type mwCase struct {
	ID          int               `json:"id"`
	LDS         json.RawMessage   `json:"lds"`
	Named       []json.RawMessage `json:"named"`
	FaultLis    string            `json:"fault_lis"`   // "", "err", "timeout"
	FaultNamed  string            `json:"fault_named"` // "", "err", "timeout"
	Call        routeCall         `json:"call"`
	PreTag      *string           `json:"pre_tag"`
	T0          int64             `json:"t0"`
	MatchMethod bool              `json:"match_method"`
	LockTimeout bool              `json:"lock_timeout"` // the caller fixed the rpc timeout (as client.WithRPCTimeout does)
	CtxDone     bool              `json:"ctx_done"`     // the caller's context is cancelled before the routing step runs
}

type mwEffect struct {
	Err     int     `json:"err"` // 0 none, 1 routing error, 2 other
	Next    int     `json:"next"`
	Tag     *string `json:"tag"`
	Locked  bool    `json:"locked"`
	Timeout int64   `json:"timeout"`
	Panic   string  `json:"panic"`
}

type mwObs struct {
	ID        int         `json:"id"`
	DecodeErr bool        `json:"decode_err"`
	Lis       interface{} `json:"lis"`
	Named     interface{} `json:"named"`
	ReValid   interface{} `json:"re_valid"`
	ReMatch   interface{} `json:"re_match"`
	MW        mwEffect    `json:"mw"`
	Key       string      `json:"key"`
	KeyEff    mwEffect    `json:"key_eff"`
}

func init() {
	engines["mw"] = runMW
	engines["resolve"] = runResolve
}

func faultErr(mode string) error {
	if mode == "timeout" {
		return fmt.Errorf("[XDS] manager, fetch resource timeout")
	}
	return fmt.Errorf("[XDS] manager, fetch failed")
}

func newRemoteRI(c routeCall, pre *string, t0 int64, lockTimeout ...bool) rpcinfo.RPCInfo {
	tags := map[string]string{}
	if pre != nil {
		tags[xdssuite.RouterClusterKey] = *pre
	}
	to := remoteinfo.NewRemoteInfo(&rpcinfo.EndpointBasicInfo{ServiceName: c.Service, Method: c.ToMethod, Tags: tags}, c.ToMethod)
	cfg := rpcinfo.NewRPCConfig()
	if c.GRPC {
		_ = rpcinfo.AsMutableRPCConfig(cfg).SetTransportProtocol(transport.GRPC)
	}
	_ = rpcinfo.AsMutableRPCConfig(cfg).SetRPCTimeout(time.Duration(t0))
	if len(lockTimeout) > 0 && lockTimeout[0] {
		rpcinfo.AsMutableRPCConfig(cfg).LockConfig(rpcinfo.BitRPCTimeout)
	}
	return rpcinfo.NewRPCInfo(nil, to, rpcinfo.NewInvocation(c.Svc, c.Method, c.Pkg), cfg, rpcinfo.NewRPCStats())
}

func effectOf(ri rpcinfo.RPCInfo, e *mwEffect) {
	if v, ok := ri.To().Tag(xdssuite.RouterClusterKey); ok {
		v := v
		e.Tag = &v
	}
	// locked iff a further SetTag is refused
	if err := remoteinfo.AsRemoteInfo(ri.To()).SetTag(xdssuite.RouterClusterKey, "probe-lock"); err != nil {
		e.Locked = true
	}
	e.Timeout = int64(ri.Config().RPCTimeout())
}

func runMW(raw json.RawMessage) (interface{}, error) {
	var c mwCase
	if err := json.Unmarshal(raw, &c); err != nil {
		return nil, err
	}
	o := mwObs{ID: c.ID}
	ctxs := newSummCtx()
	fm := newFakeManager()
	lisName := "svc-listener"
	if c.FaultLis != "" {
		fm.set(xdsresource.ListenerType, lisName, nil, faultErr(c.FaultLis))
		o.Lis = C("GErr")
	} else if len(c.LDS) > 0 && string(c.LDS) != "null" {
		n, err := parseNode(c.LDS)
		if err != nil {
			return nil, err
		}
		a, err := buildRes("lds", n)
		if err != nil {
			return nil, err
		}
		ctxs.summarise("lds", a)
		res, err := xdsresource.UnmarshalLDS([]*anypb.Any{a})
		if err != nil || len(res) != 1 {
			o.DecodeErr = true
			return o, nil
		}
		observeJSON(c.ID, res)
		for name, l := range res {
			lisName = name
			fm.set(xdsresource.ListenerType, name, l, nil)
			o.Lis = C("GOk", dListener(l))
		}
	} else {
		o.Lis = C("GErr")
	}
	var anys []*anypb.Any
	for _, r := range c.Named {
		n, err := parseNode(r)
		if err != nil {
			return nil, err
		}
		a, err := buildRes("rds", n)
		if err != nil {
			return nil, err
		}
		ctxs.summarise("rds", a)
		anys = append(anys, a)
	}
	named, err := xdsresource.UnmarshalRDS(anys)
	if err != nil {
		o.DecodeErr = true
		return o, nil
	}
	observeJSON(c.ID, named)
	if c.FaultNamed != "" {
		for name := range named {
			fm.set(xdsresource.RouteConfigType, name, nil, faultErr(c.FaultNamed))
		}
		o.Named = Lof(nil)
	} else {
		for name, rc := range named {
			fm.set(xdsresource.RouteConfigType, name, rc, nil)
		}
		o.Named = dMap(named)
	}
	setTarget(fm)
	call := c.Call
	call.Service = lisName
	md := map[string]string{}
	ctx := context.Background()
	values := map[string]struct{}{}
	for _, kv := range call.MD {
		md[kv[0]] = kv[1]
		values[kv[1]] = struct{}{}
		if !call.Extractor {
			ctx = metainfo.WithValue(ctx, kv[0], kv[1])
		}
	}
	for _, kv := range call.Decoy {
		if call.Extractor {
			ctx = metainfo.WithValue(ctx, kv[0], kv[1])
		} else {
			ctx = metainfo.WithPersistentValue(ctx, kv[0], kv[1])
		}
	}
	o.ReValid, o.ReMatch = regexTables(ctxs, values)
	if c.CtxDone {
		var cancelCtx context.CancelFunc
		ctx, cancelCtx = context.WithCancel(ctx)
		cancelCtx()
	}
	var opts []xdssuite.Option
	if call.Extractor {
		opts = append(opts, xdssuite.WithRouterMetaExtractor(func(context.Context) map[string]string { return md }))
	}
	opts = append(opts, xdssuite.WithMatchRetryMethod(c.MatchMethod))

	// A: middleware
	func() {
		ri := newRemoteRI(call, c.PreTag, c.T0, c.LockTimeout)
		e := &o.MW
		defer func() {
			if p := recover(); p != nil {
				e.Panic = fmt.Sprint(p)
			}
		}()
		mw := xdssuite.NewXDSRouterMiddleware(opts...)
		next := func(ctx context.Context, req, resp interface{}) error { e.Next++; return nil }
		err := mw(next)(rpcinfo.NewCtxWithRPCInfo(ctx, ri), nil, nil)
		switch {
		case err == nil:
		case errors.Is(err, kerrors.ErrRoute):
			e.Err = 1
		default:
			e.Err = 2
		}
		effectOf(ri, e)
	}()
	// B: retry key, observed through which installed policy the container selects
	func() {
		ri := newRemoteRI(call, c.PreTag, c.T0, c.LockTimeout)
		e := &o.KeyEff
		defer func() {
			if p := recover(); p != nil {
				e.Panic = fmt.Sprint(p)
			}
		}()
		copt := xdssuite.NewRetryPolicy(opts...)
		cos := &client.Options{}
		copt.F(cos, &utils.Slice{})
		container := cos.RetryContainer
		// candidate keys: every cluster name in the tables, with and without "|method", the pre tag
		cands := []string{""}
		addc := func(n string) { cands = append(cands, n, n+"|"+call.ToMethod) }
		if c.PreTag != nil {
			addc(*c.PreTag)
		}
		collectClusters(fm, addc)
		seen := map[string]bool{}
		idx := map[uint32]string{}
		k := uint32(1)
		for _, key := range cands {
			if seen[key] || key == "" {
				continue
			}
			seen[key] = true
			container.NotifyPolicyChange(key, retry.Policy{Enable: true, Type: retry.FailureType, FailurePolicy: &retry.FailurePolicy{
				StopPolicy:    retry.StopPolicy{MaxRetryTimes: 0, MaxDurationMS: k, CBPolicy: retry.CBPolicy{ErrorRate: 0.1}},
				BackOffPolicy: &retry.BackOffPolicy{BackOffType: retry.NoneBackOffType}}})
			idx[k] = key
			k++
		}
		o.Key = ""
		_, _, _ = container.WithRetryIfNeeded(rpcinfo.NewCtxWithRPCInfo(ctx, ri), nil, func(ctx context.Context, r retry.Retryer) (rpcinfo.RPCInfo, interface{}, error) {
			if r != nil {
				if d := r.Dump(); d != nil {
					if fp, ok := d["failure_retry"].(*retry.FailurePolicy); ok && fp != nil {
						o.Key = idx[fp.StopPolicy.MaxDurationMS]
					} else {
						o.Key = fmt.Sprintf("?dump:%v", d)
					}
				}
			}
			return ri, nil, nil
		}, ri, nil)
		effectOf(ri, e)
	}()
	return o, nil
}

func collectClusters(fm *fakeManager, add func(string)) {
	walkRC := func(rc *xdsresource.RouteConfigResource) {
		if rc == nil {
			return
		}
		if rc.HTTPRouteConfig != nil {
			for _, vh := range rc.HTTPRouteConfig.VirtualHosts {
				for _, r := range vh.Routes {
					for _, wc := range r.WeightedClusters {
						add(wc.Name)
					}
				}
			}
		}
		if rc.ThriftRouteConfig != nil {
			for _, r := range rc.ThriftRouteConfig.Routes {
				for _, wc := range r.WeightedClusters {
					add(wc.Name)
				}
			}
		}
	}
	for _, m := range fm.res {
		for _, gr := range m {
			switch x := gr.val.(type) {
			case *xdsresource.ListenerResource:
				if x != nil {
					for _, f := range x.NetworkFilters {
						walkRC(f.InlineRouteConfig)
					}
				}
			case *xdsresource.RouteConfigResource:
				walkRC(x)
			}
		}
	}
}

// ---- resolver ----
type resolveCase struct {
	ID        int               `json:"id"`
	Cluster   json.RawMessage   `json:"cluster"` // cds resource AST or null
	Endpoints []json.RawMessage `json:"endpoints"`
	FaultCl   string            `json:"fault_cl"`
	FaultEp   string            `json:"fault_ep"`
	Desc      string            `json:"desc"`
}

type resolveObs struct {
	ID        int           `json:"id"`
	DecodeErr bool          `json:"decode_err"`
	Cluster   interface{}   `json:"cluster"`
	EDS       interface{}   `json:"eds"`
	Err       bool          `json:"err"`
	Panic     string        `json:"panic"`
	Insts     []interface{} `json:"insts"`
	Cacheable bool          `json:"cacheable"`
	CacheKey  string        `json:"cache_key"`
	Networks  []string      `json:"networks"`
	// what the generated messages contain, read back by the independent summariser
	SrcCluster interface{}   `json:"src_cluster"`
	SrcEDS     []interface{} `json:"src_eds"`
}

func runResolve(raw json.RawMessage) (interface{}, error) {
	var c resolveCase
	if err := json.Unmarshal(raw, &c); err != nil {
		return nil, err
	}
	o := resolveObs{ID: c.ID, Cluster: C("GErr")}
	sctx := newSummCtx()
	fm := newFakeManager()
	if c.FaultCl != "" {
		fm.set(xdsresource.ClusterType, c.Desc, nil, faultErr(c.FaultCl))
	} else if len(c.Cluster) > 0 && string(c.Cluster) != "null" {
		n, err := parseNode(c.Cluster)
		if err != nil {
			return nil, err
		}
		a, err := buildRes("cds", n)
		if err != nil {
			return nil, err
		}
		o.SrcCluster = sctx.summarise("cds", a)
		res, err := xdsresource.UnmarshalCDS([]*anypb.Any{a})
		if err != nil || len(res) != 1 {
			o.DecodeErr = true
			return o, nil
		}
		for _, cl := range res {
			fm.set(xdsresource.ClusterType, c.Desc, cl, nil)
			o.Cluster = C("GOk", dCluster(cl.(*xdsresource.ClusterResource)))
		}
	}
	var anys []*anypb.Any
	for _, r := range c.Endpoints {
		n, err := parseNode(r)
		if err != nil {
			return nil, err
		}
		a, err := buildRes("eds", n)
		if err != nil {
			return nil, err
		}
		anys = append(anys, a)
		o.SrcEDS = append(o.SrcEDS, sctx.summarise("eds", a))
	}
	eds, err := xdsresource.UnmarshalEDS(anys)
	if err != nil {
		o.DecodeErr = true
		return o, nil
	}
	var edsOut []interface{}
	for _, name := range sortedResKeys(eds) {
		if c.FaultEp != "" {
			fm.set(xdsresource.EndpointsType, name, nil, faultErr(c.FaultEp))
			edsOut = append(edsOut, P(name, C("GErr")))
		} else {
			fm.set(xdsresource.EndpointsType, name, eds[name], nil)
			edsOut = append(edsOut, P(name, C("GOk", dResource(eds[name]))))
		}
	}
	o.EDS = Lof(edsOut)
	setTarget(fm)
	func() {
		defer func() {
			if p := recover(); p != nil {
				o.Panic = fmt.Sprint(p)
			}
		}()
		r := xdssuite.NewXDSResolver()
		res, err := r.Resolve(context.Background(), c.Desc)
		if err != nil {
			o.Err = true
			return
		}
		o.Cacheable, o.CacheKey = res.Cacheable, res.CacheKey
		o.Insts = []interface{}{}
		for _, in := range res.Instances {
			o.Insts = append(o.Insts, P(in.Address().String(), uint64(in.Weight())))
			o.Networks = append(o.Networks, in.Address().Network())
		}
	}()
	return o, nil
}

func sortedResKeys(m map[string]xdsresource.Resource) []string {
	s := map[string]struct{}{}
	for k := range m {
		s[k] = struct{}{}
	}
	return sortedKeys(s)
}
