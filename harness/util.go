package main

import (
	"bytes"
	"io"
)

func bytesReader(b []byte) io.Reader { return bytes.NewReader(b) }
