package main

import (
	"encoding/json"
	"fmt"
	"sort"
)

// Tagged-JSON form of Gallina terms (shared by the generator, the builder, the summariser and
// the dumper; printed as Gallina by the orchestrator):
//   "str" -> string; 12 -> N; {"z":-3} -> Z; true/false -> bool; null -> None; {"some":x} -> Some x;
//   {"l":[..]} -> list; {"p":[a,b]} -> pair; ["Ctor",a1,..] -> (Ctor a1 ..)

func C(name string, args ...interface{}) interface{} {
	return append([]interface{}{name}, args...)
}
func L(xs ...interface{}) interface{} {
	if xs == nil {
		xs = []interface{}{}
	}
	return map[string]interface{}{"l": xs}
}
func Lof(xs []interface{}) interface{} {
	if xs == nil {
		xs = []interface{}{}
	}
	return map[string]interface{}{"l": xs}
}
func Some(x interface{}) interface{} { return map[string]interface{}{"some": x} }
func Zv(n int64) interface{}         { return map[string]interface{}{"z": n} }
func P(a, b interface{}) interface{} { return map[string]interface{}{"p": []interface{}{a, b}} }

// Node is a parsed tagged-JSON term.
type Node struct {
	Kind byte // 's','n','z','b','0','o','l','p','c'
	S    string
	N    uint64
	Z    int64
	B    bool
	Ctor string
	Args []*Node
}

func parseNode(raw json.RawMessage) (*Node, error) {
	var v interface{}
	d := json.NewDecoder(bytesReader(raw))
	d.UseNumber()
	if err := d.Decode(&v); err != nil {
		return nil, err
	}
	return toNode(v)
}

func toNode(v interface{}) (*Node, error) {
	switch x := v.(type) {
	case nil:
		return &Node{Kind: '0'}, nil
	case string:
		return &Node{Kind: 's', S: x}, nil
	case bool:
		return &Node{Kind: 'b', B: x}, nil
	case json.Number:
		var n uint64
		if _, err := fmt.Sscan(x.String(), &n); err != nil {
			return nil, fmt.Errorf("bad number %s", x)
		}
		return &Node{Kind: 'n', N: n}, nil
	case []interface{}:
		if len(x) == 0 {
			return nil, fmt.Errorf("empty constructor")
		}
		name, ok := x[0].(string)
		if !ok {
			return nil, fmt.Errorf("constructor name expected")
		}
		n := &Node{Kind: 'c', Ctor: name}
		for _, a := range x[1:] {
			c, err := toNode(a)
			if err != nil {
				return nil, err
			}
			n.Args = append(n.Args, c)
		}
		return n, nil
	case map[string]interface{}:
		if s, ok := x["some"]; ok {
			c, err := toNode(s)
			if err != nil {
				return nil, err
			}
			return &Node{Kind: 'o', Args: []*Node{c}}, nil
		}
		if z, ok := x["z"]; ok {
			var n int64
			if _, err := fmt.Sscan(z.(json.Number).String(), &n); err != nil {
				return nil, err
			}
			return &Node{Kind: 'z', Z: n}, nil
		}
		if l, ok := x["l"]; ok {
			n := &Node{Kind: 'l'}
			for _, a := range l.([]interface{}) {
				c, err := toNode(a)
				if err != nil {
					return nil, err
				}
				n.Args = append(n.Args, c)
			}
			return n, nil
		}
		if p, ok := x["p"]; ok {
			n := &Node{Kind: 'p'}
			for _, a := range p.([]interface{}) {
				c, err := toNode(a)
				if err != nil {
					return nil, err
				}
				n.Args = append(n.Args, c)
			}
			return n, nil
		}
	}
	return nil, fmt.Errorf("unrecognised term %v", v)
}

func (n *Node) isNone() bool { return n == nil || n.Kind == '0' }
func (n *Node) some() *Node  { return n.Args[0] }
func (n *Node) arg(i int) *Node {
	if i >= len(n.Args) {
		panic(fmt.Sprintf("constructor %s: missing argument %d", n.Ctor, i))
	}
	return n.Args[i]
}

// hasFlag: generator-only string arguments after the first argument of a constructor (they select a variant of the
// bytes that the summariser reads back as the same source term)
func (n *Node) hasFlag(f string) bool {
	for i := 1; i < len(n.Args); i++ {
		if a := n.Args[i]; a != nil && a.Kind == 's' && a.S == f {
			return true
		}
	}
	return false
}
func (n *Node) str() string {
	if n.Kind != 's' {
		panic(fmt.Sprintf("string expected, got kind %c ctor %s", n.Kind, n.Ctor))
	}
	return n.S
}
func (n *Node) num() uint64 {
	if n.Kind != 'n' {
		panic(fmt.Sprintf("number expected, got kind %c ctor %s", n.Kind, n.Ctor))
	}
	return n.N
}
func (n *Node) zint() int64 {
	if n.Kind == 'n' {
		return int64(n.N)
	}
	if n.Kind != 'z' {
		panic("Z expected")
	}
	return n.Z
}
func (n *Node) list() []*Node {
	if n.Kind != 'l' {
		panic(fmt.Sprintf("list expected, got kind %c ctor %s", n.Kind, n.Ctor))
	}
	return n.Args
}

func sortedKeys(m map[string]struct{}) []string {
	ks := make([]string, 0, len(m))
	for k := range m {
		ks = append(ks, k)
	}
	sort.Strings(ks)
	return ks
}
